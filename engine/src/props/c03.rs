//! C03 — no event is lost, invented, or released before a confirmed response carried it.
//!
//! SM exploration of the real outstation task; oracle = event ledger (DESIGN §5 C03).

use dnp3::app::measurement::*;
use dnp3::outstation::database::*;

use super::common::{self, collect, Step};
use crate::explore::{Check, Hasher, RunResult, Scenario, Violation};
use crate::osim::{Cb, OCfg, OSim};
use crate::wire::app::{self, fc};

pub const TO: u64 = 5000; // confirm timeout == unsolicited retry delay

#[derive(Copy, Clone, Debug, PartialEq, Eq, Hash)]
pub enum Pt {
    /// binary 0, class 1
    B0,
    /// binary 1, class 2
    B1,
    /// analog 0, class 2
    A0,
    /// counter 0, class 3
    C0,
}

impl Pt {
    pub fn class(self) -> u8 {
        match self {
            Pt::B0 => 1,
            Pt::B1 => 2,
            Pt::A0 => 2,
            Pt::C0 => 3,
        }
    }
    pub fn typ(self) -> u8 {
        match self {
            Pt::B0 | Pt::B1 => 0,
            Pt::A0 => 5,
            Pt::C0 => 3,
        }
    }
    pub fn index(self) -> u16 {
        match self {
            Pt::B1 => 1,
            _ => 0,
        }
    }
}

#[derive(Clone, Debug, PartialEq, Eq)]
pub enum Ev {
    Upd(Pt),
    /// READ of classes (c1, c2, c3), optional count limit on the first class header
    Read(bool, bool, bool, Option<u8>),
    ReadBinaryEvents,
    ReadClass0,
    SolConfirm(bool),
    UnsConfirm(bool),
    Timeout,
    Disable,
    EnableC1,
    EnableAll,
    Other,
    Reconnect,
    /// a new connection replaces the live one (no end of the old one is ever seen)
    Replace,
    // --- used by C13 only ---
    /// broadcast RECORD_CURRENT_TIME to 0xFFFF (0: confirm optional), 0xFFFE (1: mandatory), 0xFFFD (2: not required)
    Broadcast(u8),
    WriteRestart(bool),
    /// toggle need_time / local_control / device_trouble / config_corrupt
    AppIin(u8),
    // --- used by C14 only ---
    DisableC1,
    /// ENABLE / DISABLE_UNSOLICITED for exactly class k (2 or 3)
    EnableOnly(u8),
    DisableOnly(u8),
    Adv(u64),
    /// the READ sent last is sent again, byte for byte, while an unsolicited response awaits its
    /// confirm (no effect in any other situation)
    RepeatRead,
    /// a READ whose object header names an unknown object (answered with an error indication)
    BadRead,
}

#[derive(Copy, Clone, Debug, PartialEq, Eq)]
pub enum RowState {
    Recorded,
    Released,
    Discarded,
}

#[derive(Clone, Debug)]
pub struct Row {
    pub id: u64,
    pub typ: u8,
    pub index: u16,
    pub value: i64,
    pub flags: u8,
    pub time: u64,
    pub class: u8,
    pub state: RowState,
    pub tx_count: usize,
}

#[derive(Clone, Debug)]
pub struct Awaited {
    pub seq: u8,
    pub rows: Vec<u64>,
    pub t_sent: u64,
    pub raw: Vec<u8>,
    /// the response reported the BROADCAST indication
    pub bcast: bool,
    /// transmitted while an unsolicited response was awaited: the outstation answers such
    /// requests without entering a solicited confirm wait, so a confirm of it may be ignored
    pub weak: bool,
}

/// a decoded event object
#[derive(Clone, Debug, PartialEq)]
pub struct EvObj {
    pub typ: u8,
    pub index: u16,
    pub value: i64,
    pub flags: u8,
    pub time: Option<u64>,
}

/// decode the event objects of a response (variations used by this check)
pub fn decode_events(r: &app::Resp) -> Result<Vec<EvObj>, String> {
    let hs = r.headers().map_err(|e| format!("{e:?}"))?;
    let mut out = Vec::new();
    let mut cto: Option<u64> = None;
    for h in hs {
        match (h.group, h.var) {
            (51, 1) | (51, 2) => {
                if let Some(o) = h.objects.first() {
                    cto = Some(app::read_u48(&o.data));
                }
            }
            (2, v) => {
                for o in &h.objects {
                    let flags = o.data[0];
                    let time = match v {
                        1 => None,
                        2 => Some(app::read_u48(&o.data[1..])),
                        3 => {
                            let rel = u16::from_le_bytes([o.data[1], o.data[2]]) as u64;
                            Some(cto.ok_or("g2v3 without CTO")? + rel)
                        }
                        _ => return Err(format!("unexpected g2v{v}")),
                    };
                    out.push(EvObj {
                        typ: 0,
                        index: o.index.unwrap_or(0) as u16,
                        value: (flags >> 7) as i64,
                        flags,
                        time,
                    });
                }
            }
            (32, v) => {
                for o in &h.objects {
                    let flags = o.data[0];
                    let (value, time) = match v {
                        1 => (i32::from_le_bytes([o.data[1], o.data[2], o.data[3], o.data[4]]) as i64, None),
                        3 => (
                            i32::from_le_bytes([o.data[1], o.data[2], o.data[3], o.data[4]]) as i64,
                            Some(app::read_u48(&o.data[5..])),
                        ),
                        _ => return Err(format!("unexpected g32v{v}")),
                    };
                    out.push(EvObj { typ: 5, index: o.index.unwrap_or(0) as u16, value, flags, time });
                }
            }
            (22, v) => {
                for o in &h.objects {
                    let flags = o.data[0];
                    let (value, time) = match v {
                        1 => (u32::from_le_bytes([o.data[1], o.data[2], o.data[3], o.data[4]]) as i64, None),
                        5 => (
                            u32::from_le_bytes([o.data[1], o.data[2], o.data[3], o.data[4]]) as i64,
                            Some(app::read_u48(&o.data[5..])),
                        ),
                        _ => return Err(format!("unexpected g22v{v}")),
                    };
                    out.push(EvObj { typ: 3, index: o.index.unwrap_or(0) as u16, value, flags, time });
                }
            }
            _ => {} // static data
        }
    }
    Ok(out)
}

/// reference model of the internal indications (C13)
#[derive(Clone, Debug)]
pub struct IinModel {
    pub restart: bool,
    pub overflow: bool,
    pub bcast: Option<u8>,
    pub need_time: bool,
    pub local_control: bool,
    pub device_trouble: bool,
    pub config_corrupt: bool,
    /// per-type event capacity
    pub cap: usize,
    pub checked: usize,
    /// effects of requests the driver sent that take hold when the outstation processes them:
    /// Some(mode) = broadcast received, None = restart bit written to 0
    pub pending: Vec<Option<u8>>,
    /// a solicited CONFIRM arrived while an unsolicited response was awaited and a
    /// confirm-mandatory broadcast was pending: the library may or may not count it
    pub bcast_dont_care: bool,
    /// the pending confirm-mandatory broadcast has been reported in at least one response
    pub bcast_reported: bool,
    /// compare the overflow indication only (C03: a displaced event is lost *reported*)
    pub overflow_only: bool,
}

impl IinModel {
    /// the outstation processed the next request whose effect is pending
    fn apply_pending(&mut self, broadcast: bool) {
        if let Some(pos) = self.pending.iter().position(|p| p.is_some() == broadcast) {
            match self.pending.remove(pos) {
                Some(mode) => {
                    self.bcast = Some(mode);
                    self.bcast_dont_care = false;
                    self.bcast_reported = false;
                }
                None => self.restart = false,
            }
        }
    }

    pub fn new(cap: usize) -> Self {
        Self {
            restart: true,
            overflow: false,
            bcast: None,
            need_time: false,
            local_control: false,
            device_trouble: false,
            config_corrupt: false,
            cap,
            checked: 0,
            pending: Vec::new(),
            bcast_dont_care: false,
            bcast_reported: false,
            overflow_only: false,
        }
    }
}

/// the event ledger: reference model of C03 (and the basis of C13's class/overflow bits)
#[derive(Clone, Debug, Default)]
pub struct Ledger {
    pub rows: Vec<Row>,
    pub sol: Option<Awaited>,
    pub uns: Option<Awaited>,
    pub transmissions: usize,
    pub releases: usize,
    pub iin: Option<IinModel>,
}

impl Ledger {
    pub fn record(&mut self, info: UpdateInfo, pt: Pt, value: i64, flags: u8, time: u64) {
        let mut add = |id: u64, rows: &mut Vec<Row>| {
            rows.push(Row {
                id,
                typ: pt.typ(),
                index: pt.index(),
                value,
                flags,
                time,
                class: pt.class(),
                state: RowState::Recorded,
                tx_count: 0,
            })
        };
        match info {
            UpdateInfo::Created(id) => add(id, &mut self.rows),
            UpdateInfo::Overflow { created, discarded } => {
                if let Some(m) = &mut self.iin {
                    m.overflow = true;
                }
                if let Some(r) = self.rows.iter_mut().find(|r| r.id == discarded) {
                    r.state = RowState::Discarded;
                }
                add(created, &mut self.rows)
            }
            _ => {}
        }
    }

    pub fn held(&self) -> impl Iterator<Item = &Row> {
        self.rows.iter().filter(|r| r.state == RowState::Recorded)
    }

    /// rows of a class that are held and not part of a response still awaiting confirmation
    pub fn available(&self, class: u8, now: u64) -> bool {
        let in_flight: Vec<u64> = self
            .sol
            .iter()
            .chain(self.uns.iter())
            .filter(|a| a.t_sent + TO > now)
            .flat_map(|a| a.rows.iter().copied())
            .collect();
        self.held().any(|r| r.class == class && !in_flight.contains(&r.id))
    }

    fn expire(&mut self, now: u64) {
        if let Some(a) = &self.sol {
            if a.t_sent + TO <= now {
                self.sol = None;
            }
        }
        if let Some(a) = &self.uns {
            if a.t_sent + TO <= now {
                self.uns = None;
            }
        }
    }

    /// Process one step. `confirm` = (uns, seq) if the driver sent a CONFIRM; `new_request` = a
    /// non-confirm request was delivered; `disable` = it was DISABLE_UNSOLICITED.
    pub fn observe(
        &mut self,
        step: &Step,
        confirm: Option<(bool, u8)>,
        new_request: bool,
        disable: Option<u8>,
        reconnect: bool,
        selected_classes: Option<[bool; 3]>,
    ) -> Option<Violation> {
        let now = step.now;
        // environment action first
        let mut expected_release: Vec<u64> = Vec::new();
        let mut valid_confirm: Option<bool> = None;
        let mut weak_confirm = false;
        let mut confirm_desc = "no-confirm";
        if reconnect {
            self.sol = None;
            self.uns = None;
        }
        if let Some((uns, seq)) = confirm {
            // validity is judged at the time the confirm was delivered: waits are only ever
            // expired by Timeout events, which end in `expire`
            let slot = if uns { &mut self.uns } else { &mut self.sol };
            match slot {
                Some(a) if a.seq == seq && a.weak => {
                    weak_confirm = true;
                    *slot = None;
                    confirm_desc = "confirm-of-response-sent-during-unsolicited-wait";
                }
                Some(a) if a.seq == seq => {
                    expected_release = a.rows.clone();
                    valid_confirm = Some(a.bcast);
                    *slot = None;
                    confirm_desc = "matching-confirm";
                }
                Some(_) => confirm_desc = "wrong-sequence-confirm",
                None => confirm_desc = "confirm-while-nothing-awaited",
            }
        }
        if new_request {
            self.sol = None;
        }
        // DISABLE_UNSOLICITED cancels the unsolicited series at the moment the outstation
        // processes it, i.e. when its response is transmitted (see the loop below)
        let mut pending_disable = disable;
        let mut maybe_in_flight: Vec<u64> = Vec::new();

        // R1 / R2: releases observed in this step
        let cleared: Vec<u64> = step
            .cbs
            .iter()
            .filter_map(|c| if let Cb::EventCleared(id) = c { Some(*id) } else { None })
            .collect();
        for id in &cleared {
            match self.rows.iter_mut().find(|r| r.id == *id) {
                None => {
                    return Some(Violation::new("C03.R1", "cleared-unknown-event", format!("event_cleared({id}) for an id the database never reported")));
                }
                Some(r) => {
                    if r.state != RowState::Recorded {
                        return Some(Violation::new(
                            "C03.R1",
                            format!("cleared-event-in-state-{:?}", r.state),
                            format!("event_cleared({id})"),
                        ));
                    }
                    if !expected_release.contains(id) {
                        let key = if r.tx_count == 0 {
                            format!("released-never-transmitted:{confirm_desc}")
                        } else {
                            format!("released-without-its-confirm:{confirm_desc}")
                        };
                        return Some(Violation::new(
                            "C03.R2",
                            key,
                            format!("event {id} (class {}) released; rows covered by the confirmed response: {:?}", r.class, expected_release),
                        ));
                    }
                    r.state = RowState::Released;
                    self.releases += 1;
                }
            }
        }
        for id in &expected_release {
            if !cleared.contains(id) {
                // a row displaced by an overflow after transmission cannot be released any more
                let discarded = self.rows.iter().any(|r| r.id == *id && r.state == RowState::Discarded);
                if !discarded {
                    return Some(Violation::new(
                        "C03.R2c",
                        "confirmed-event-not-released",
                        format!("event {id} was in the confirmed response but was not released"),
                    ));
                }
            }
        }
        // R7: buffer counts reported to the application
        for c in &step.cbs {
            if let Cb::EndConfirm { classes, types } = c {
                let mut cl = [0usize; 3];
                let mut ty = [0usize; 8];
                for r in self.held() {
                    cl[(r.class - 1) as usize] += 1;
                    ty[r.typ as usize] += 1;
                }
                if *classes != cl || *types != ty {
                    return Some(Violation::new(
                        "C03.R7",
                        "end-confirm-buffer-state-differs-from-ledger",
                        format!("reported classes {classes:?} types {types:?}; ledger classes {cl:?} types {ty:?}"),
                    ));
                }
            }
        }

        // C13: a confirmation that leaves every type below capacity ends the overflow indication;
        // a confirm-mandatory broadcast is reported until confirmed
        if let Some(reported_bcast) = valid_confirm {
            let mut ty = [0usize; 8];
            for r in self.held() {
                ty[r.typ as usize] += 1;
            }
            if let Some(m) = &mut self.iin {
                if ty.iter().all(|n| *n < m.cap) {
                    m.overflow = false;
                }
                let _ = reported_bcast;
                if m.bcast == Some(1) && m.bcast_reported {
                    m.bcast = None;
                    m.bcast_reported = false;
                }
            }
        }

        // a solicited CONFIRM during an unsolicited wait, or of a response that was sent during
        // one, may or may not confirm a mandatory broadcast
        if let Some((false, _)) = confirm {
            if valid_confirm.is_none() && (self.uns.is_some() || weak_confirm) {
                if let Some(m) = &mut self.iin {
                    if m.bcast == Some(1) {
                        m.bcast_dont_care = true;
                    }
                }
            }
        }

        // callbacks that mark the moment a pending effect takes hold, in observation order
        let mut effects: Vec<(u64, bool)> = Vec::new();
        for (c, o) in step.cbs.iter().zip(step.cb_ords.iter()) {
            match c {
                Cb::Broadcast(_) => effects.push((*o, true)),
                Cb::ClearRestartIin => effects.push((*o, false)),
                _ => {}
            }
        }
        let mut next_effect = 0usize;

        // transmissions of this step
        for t in &step.out {
            let crate::osim::Tx::Frag { t: t_sent, ord, data, .. } = t else { continue };
            while next_effect < effects.len() && effects[next_effect].0 < *ord {
                if let Some(m) = &mut self.iin {
                    m.apply_pending(effects[next_effect].1);
                }
                next_effect += 1;
            }
            let Some(r) = app::Resp::parse(data) else { continue };
            let mut disable_response = false;
            if let Some(dseq) = pending_disable {
                if !r.uns() && r.seq() == dseq {
                    pending_disable = None;
                    disable_response = true;
                    if let Some(a) = self.uns.take() {
                        // for this very response both views are accepted
                        maybe_in_flight = a.rows;
                    }
                }
            }
            // a byte-identical re-send (unsolicited retry, echo to a repeated READ) of the response
            // still awaiting confirmation only restarts its timer
            {
                let slot = if r.uns() { &mut self.uns } else { &mut self.sol };
                if let Some(a) = slot {
                    if a.raw == r.raw {
                        a.t_sent = *t_sent;
                        continue;
                    }
                }
            }
            let evs = match decode_events(&r) {
                Ok(e) => e,
                Err(e) => return Some(Violation::new("C03.R4", "event-objects-not-decodable", e)),
            };
            let mut ids: Vec<u64> = Vec::new();
            for e in &evs {
                let m = self.rows.iter_mut().find(|row| {
                    row.typ == e.typ
                        && row.index == e.index
                        && row.value == e.value
                        && row.flags == e.flags
                        && e.time.map(|t| t == row.time).unwrap_or(true)
                        && (e.time.is_some() || row.state == RowState::Recorded)
                });
                match m {
                    None => {
                        return Some(Violation::new(
                            "C03.R4",
                            "transmitted-event-matches-no-recorded-event",
                            format!("{e:?}"),
                        ));
                    }
                    Some(row) => {
                        match row.state {
                            RowState::Recorded => {}
                            RowState::Released => {
                                return Some(Violation::new(
                                    "C03.R1b",
                                    "event-transmitted-after-release",
                                    format!("{e:?} id {}", row.id),
                                ));
                            }
                            RowState::Discarded => {
                                return Some(Violation::new(
                                    "C03.R6",
                                    "event-transmitted-after-reported-discard",
                                    format!("{e:?} id {}", row.id),
                                ));
                            }
                        }
                        row.tx_count += 1;
                        ids.push(row.id);
                    }
                }
            }
            // R3: oldest first within the fragment
            if ids.windows(2).any(|w| w[0] >= w[1]) {
                return Some(Violation::new("C03.R3", "events-not-oldest-first", format!("ids in fragment: {ids:?}")));
            }
            // R3b: no held older row of a selected class is skipped in favour of a newer one
            if let Some(sel) = selected_classes {
                if !r.uns() && r.fir() {
                    if let Some(newest) = ids.iter().max() {
                        for row in self.held() {
                            if sel[(row.class - 1) as usize] && row.id < *newest && !ids.contains(&row.id) {
                                return Some(Violation::new(
                                    "C03.R3b",
                                    "older-event-of-selected-class-skipped",
                                    format!("row {} (class {}) held but not reported while {} was", row.id, row.class, newest),
                                ));
                            }
                        }
                    }
                }
            }
            if !evs.is_empty() {
                self.transmissions += 1;
            }
            // C13: indications of a first transmission
            if self.iin.is_some() {
                let in_flight: Vec<u64> = self
                    .sol
                    .iter()
                    .chain(self.uns.iter())
                    .filter(|a| a.t_sent + TO > *t_sent)
                    .flat_map(|a| a.rows.iter().copied())
                    .chain(ids.iter().copied())
                    .collect();
                let mut e1 = 0u8;
                let mut class_dont_care = 0u8;
                for k in 1..=3u8 {
                    let upper = self.held().any(|row| row.class == k && !in_flight.contains(&row.id));
                    let lower = self
                        .held()
                        .any(|row| row.class == k && !in_flight.contains(&row.id) && !maybe_in_flight.contains(&row.id));
                    if upper {
                        e1 |= 1 << k;
                    }
                    if upper != lower {
                        class_dont_care |= 1 << k;
                    }
                }
                maybe_in_flight.clear();
                let m = self.iin.as_mut().unwrap();
                if m.restart {
                    e1 |= app::iin1::RESTART;
                }
                if m.bcast.is_some() {
                    e1 |= app::iin1::BROADCAST;
                }
                if m.need_time {
                    e1 |= app::iin1::NEED_TIME;
                }
                if m.local_control {
                    e1 |= app::iin1::LOCAL_CONTROL;
                }
                if m.device_trouble {
                    e1 |= app::iin1::DEVICE_TROUBLE;
                }
                let mut e2 = 0u8;
                if m.overflow {
                    e2 |= app::iin2::EVENT_BUFFER_OVERFLOW;
                }
                if m.config_corrupt {
                    e2 |= app::iin2::CONFIG_CORRUPT;
                }
                m.checked += 1;
                let got2 = r.iin2 & (app::iin2::EVENT_BUFFER_OVERFLOW | app::iin2::CONFIG_CORRUPT);
                let mask1 = (if m.bcast_dont_care { !app::iin1::BROADCAST } else { 0xFF }) & !class_dont_care;
                if m.bcast_dont_care && r.iin1 & app::iin1::BROADCAST == 0 {
                    // the library counted the stray confirm: the broadcast is no longer pending
                    m.bcast = None;
                    m.bcast_dont_care = false;
                }
                if m.overflow_only {
                    if (got2 ^ e2) & app::iin2::EVENT_BUFFER_OVERFLOW != 0 {
                        return Some(Violation::new(
                            "C03.V1",
                            if e2 & app::iin2::EVENT_BUFFER_OVERFLOW != 0 { "displacement-not-reported" } else { "overflow-reported-without-displacement" },
                            format!("response {} : IIN2={:02X}; an event was displaced and no confirmation has since left every type below capacity: {}", app::hex(&r.raw[..4]), r.iin2, e2 & app::iin2::EVENT_BUFFER_OVERFLOW != 0),
                        ));
                    }
                } else if (r.iin1 ^ e1) & mask1 != 0 || got2 != e2 {
                    let d1 = (r.iin1 ^ e1) & mask1;
                    let d2 = got2 ^ e2;
                    let mut names = Vec::new();
                    for (bit, n) in [(0x01u8, "broadcast"), (0x02, "class1"), (0x04, "class2"), (0x08, "class3"), (0x10, "need-time"), (0x20, "local-control"), (0x40, "device-trouble"), (0x80, "restart")] {
                        if d1 & bit != 0 {
                            names.push(format!("{n}={}", (r.iin1 & bit != 0) as u8));
                        }
                    }
                    for (bit, n) in [(0x08u8, "overflow"), (0x20, "config-corrupt")] {
                        if d2 & bit != 0 {
                            names.push(format!("{n}={}", (r.iin2 & bit != 0) as u8));
                        }
                    }
                    return Some(Violation::new(
                        "C13.I1",
                        format!("wrong-indication:{}", names.join(",")),
                        format!("response {} : IIN1={:02X} IIN2={:02X}, expected IIN1={:02X} IIN2(masked)={:02X}", app::hex(&r.raw[..4]), r.iin1, r.iin2, e1, e2),
                    ));
                }
                // an optional / not-required broadcast is reported once
                if m.bcast.is_some() && m.bcast != Some(1) {
                    m.bcast = None;
                }
                if m.bcast == Some(1) {
                    m.bcast_reported = true;
                }
            }
            let weak = !r.uns() && (self.uns.as_ref().map(|a| a.t_sent + TO > *t_sent).unwrap_or(false) || disable_response);
            let aw = Awaited {
                seq: r.seq(),
                rows: ids,
                t_sent: *t_sent,
                raw: r.raw.clone(),
                bcast: r.iin1 & app::iin1::BROADCAST != 0,
                weak,
            };
            if r.uns() {
                self.uns = Some(aw);
            } else if r.con() {
                self.sol = Some(aw);
            } else {
                self.sol = None;
            }
        }
        if pending_disable.is_some() {
            self.uns = None;
        }
        if let Some(m) = &mut self.iin {
            while next_effect < effects.len() {
                m.apply_pending(effects[next_effect].1);
                next_effect += 1;
            }
            // fallback: whatever was sent in this step has been processed by its end
            while !m.pending.is_empty() {
                let b = m.pending[0].is_some();
                m.apply_pending(b);
            }
        }
        self.expire(now);
        None
    }

    pub fn key(&self, now: u64) -> u64 {
        let mut h = Hasher::default();
        for r in &self.rows {
            h.add_u64(r.class as u64 * 16 + r.state as u64 * 4 + r.tx_count.min(2) as u64);
        }
        h.add_u64(self.sol.as_ref().map(|a| a.rows.len() as u64 + 1).unwrap_or(0));
        h.add_u64(self.uns.as_ref().map(|a| a.rows.len() as u64 + 1).unwrap_or(0));
        let _ = now;
        h.0
    }
}

#[derive(Clone, Debug)]
pub struct C03 {
    pub name: String,
    pub alphabet: Vec<Ev>,
    pub depth: usize,
    pub unsol: bool,
    pub buf: u16,
    pub cto: bool,
    pub retries: Option<usize>,
    /// also follow the overflow indication (clause V1)
    pub overflow_model: bool,
}

pub fn setup_db(sim: &mut OSim, cto: bool) {
    sim.db(|db| {
        let bvar = if cto { EventBinaryInputVariation::Group2Var3 } else { EventBinaryInputVariation::Group2Var2 };
        db.add(0, Some(EventClass::Class1), BinaryInputConfig::new(StaticBinaryInputVariation::Group1Var2, bvar));
        db.add(1, Some(EventClass::Class2), BinaryInputConfig::new(StaticBinaryInputVariation::Group1Var2, bvar));
        db.add(
            0,
            Some(EventClass::Class2),
            AnalogInputConfig::new(StaticAnalogInputVariation::Group30Var1, EventAnalogInputVariation::Group32Var3, 0.0),
        );
        db.add(
            0,
            Some(EventClass::Class3),
            CounterConfig::new(StaticCounterVariation::Group20Var1, EventCounterVariation::Group22Var5, 0),
        );
    });
}

/// apply an update with a fresh value; returns what the database reported
pub fn apply_update(sim: &mut OSim, pt: Pt, n: u64) -> (UpdateInfo, i64, u8, u64) {
    let time = 1000 + n * 10;
    match pt {
        Pt::B0 | Pt::B1 => {
            let v = n % 2 == 1;
            let info = sim.db(|db| db.update2(pt.index(), &BinaryInput::new(v, Flags::ONLINE, common::ts(time)), UpdateOptions::detect_event()));
            // make sure every update is an event even if the value repeats: detect_event compares
            // value/flags, so alternate values per point are arranged by the caller
            (info, v as i64, 0x01 | ((v as u8) << 7), time)
        }
        Pt::A0 => {
            let v = (n as i64 + 1) * 7;
            let info = sim.db(|db| db.update2(0, &AnalogInput::new(v as f64, Flags::ONLINE, common::ts(time)), UpdateOptions::detect_event()));
            (info, v, 0x01, time)
        }
        Pt::C0 => {
            let v = (n as i64 + 1) * 3;
            let info = sim.db(|db| db.update2(0, &Counter::new(v as u32, Flags::ONLINE, common::ts(time)), UpdateOptions::detect_event()));
            (info, v, 0x01, time)
        }
    }
}

pub fn read_request(seq: u8, c1: bool, c2: bool, c3: bool, limit: Option<u8>) -> Vec<u8> {
    let mut o = Vec::new();
    let mut first = true;
    for (on, var) in [(c1, 2u8), (c2, 3u8), (c3, 4u8)] {
        if on {
            match (first, limit) {
                (true, Some(n)) => o.extend(app::hdr_count8(60, var, n)),
                _ => o.extend(app::hdr_all(60, var)),
            }
            first = false;
        }
    }
    app::request(seq, fc::READ, &o)
}

fn alphabet(unsol: bool, reconnect: bool) -> Vec<Ev> {
    let mut v = vec![
        Ev::Upd(Pt::B0),
        Ev::Upd(Pt::B1),
        Ev::Read(true, false, false, None),
        Ev::Read(false, true, false, None),
        Ev::Read(true, true, true, None),
        Ev::SolConfirm(true),
        Ev::Timeout,
        Ev::Upd(Pt::A0),
        Ev::Upd(Pt::C0),
        Ev::Read(true, true, false, Some(1)),
        Ev::ReadBinaryEvents,
        Ev::ReadClass0,
        Ev::SolConfirm(false),
        Ev::Other,
    ];
    if unsol {
        v.extend([Ev::UnsConfirm(true), Ev::UnsConfirm(false), Ev::Disable, Ev::EnableC1, Ev::EnableAll]);
    }
    if reconnect {
        v.push(Ev::Reconnect);
        v.push(Ev::Replace);
    }
    v
}

fn reduced(unsol: bool) -> Vec<Ev> {
    let mut v = vec![
        Ev::Upd(Pt::B0),
        Ev::Upd(Pt::B1),
        Ev::Read(true, false, false, None),
        Ev::Read(false, true, false, None),
        Ev::Read(true, true, true, None),
        Ev::SolConfirm(true),
        Ev::Timeout,
        Ev::Other,
        Ev::Reconnect,
    ];
    if unsol {
        v.extend([Ev::UnsConfirm(true), Ev::Disable, Ev::EnableAll]);
    }
    v
}

impl C03 {
    pub fn cfg(&self) -> OCfg {
        OCfg {
            unsolicited: self.unsol,
            confirm_timeout_ms: TO,
            unsol_retry_delay_ms: TO,
            max_unsol_retries: self.retries,
            event_buf: [self.buf; 8],
            ..Default::default()
        }
    }
}

pub struct Driver {
    pub sim: OSim,
    pub last_step: Option<Step>,
    pub last_sent: Option<Vec<u8>>,
    pub ledger: Ledger,
    pub last_seq: u8,
    pub updates: [u64; 4],
    pub sol_expected: u8,
    pub uns_expected: u8,
    /// the latest request if it was a READ: (sequence number, asks for static data)
    pub last_read: Option<(u8, bool)>,
    /// the latest READ as sent, with the classes it selects
    pub last_read_request: Option<(Vec<u8>, Option<[bool; 3]>)>,
}

impl Driver {
    pub fn pt_slot(pt: Pt) -> usize {
        match pt {
            Pt::B0 => 0,
            Pt::B1 => 1,
            Pt::A0 => 2,
            Pt::C0 => 3,
        }
    }

    /// apply one event; returns (label bytes sent, ledger arguments)
    pub fn apply(
        &mut self,
        ev: &Ev,
        res: &mut RunResult,
        obs: &mut Hasher,
        transcript: bool,
    ) -> Option<Violation> {
        let mut confirm = None;
        let mut new_request = false;
        let mut disable: Option<u8> = None;
        let mut reconnect = false;
        let mut selected = None;
        let mut sent: Option<Vec<u8>> = None;
        let mut broadcast_dst: Option<u16> = None;
        // expectations for the confirms are taken from what was last observed
        if let Some(a) = &self.ledger.sol {
            self.sol_expected = a.seq;
        }
        if let Some(a) = &self.ledger.uns {
            self.uns_expected = a.seq;
        }
        let mut next_seq = |s: &mut u8| {
            *s = (*s + 1) & 0x0F;
            *s
        };
        match ev {
            Ev::Upd(pt) => {
                let slot = Self::pt_slot(*pt);
                self.updates[slot] += 1;
                let n = self.updates[slot];
                let (info, value, flags, time) = apply_update(&mut self.sim, *pt, n + (slot as u64) * 1000);
                self.ledger.record(info, *pt, value, flags, time);
            }
            Ev::Read(c1, c2, c3, limit) => {
                let f = read_request(next_seq(&mut self.last_seq), *c1, *c2, *c3, *limit);
                new_request = true;
                if limit.is_none() {
                    selected = Some([*c1, *c2, *c3]);
                }
                sent = Some(f);
            }
            Ev::ReadBinaryEvents => {
                sent = Some(app::request(next_seq(&mut self.last_seq), fc::READ, &app::hdr_all(2, 0)));
                new_request = true;
            }
            Ev::ReadClass0 => {
                sent = Some(app::request(next_seq(&mut self.last_seq), fc::READ, &app::hdr_all(60, 1)));
                new_request = true;
            }
            Ev::SolConfirm(ok) => {
                let seq = if *ok { self.sol_expected } else { (self.sol_expected + 1) & 0x0F };
                confirm = Some((false, seq));
                sent = Some(app::confirm(seq, false));
            }
            Ev::UnsConfirm(ok) => {
                let seq = if *ok { self.uns_expected } else { (self.uns_expected + 1) & 0x0F };
                confirm = Some((true, seq));
                sent = Some(app::confirm(seq, true));
            }
            Ev::RepeatRead => {
                let deferrable = self.ledger.uns.is_some() && self.ledger.sol.is_none();
                if let (true, Some((f, sel))) = (deferrable, self.last_read_request.clone()) {
                    if f[0] & 0x0F == self.last_seq {
                        selected = sel;
                        new_request = true;
                        sent = Some(f);
                    }
                }
            }
            Ev::Timeout => self.sim.advance(TO),
            Ev::Adv(ms) => self.sim.advance(*ms),
            Ev::DisableC1 => {
                sent = Some(app::request(next_seq(&mut self.last_seq), fc::DISABLE_UNSOLICITED, &app::hdr_all(60, 2)));
                new_request = true;
                disable = Some(self.last_seq);
            }
            Ev::EnableOnly(k) => {
                sent = Some(app::request(next_seq(&mut self.last_seq), fc::ENABLE_UNSOLICITED, &app::hdr_all(60, 1 + *k)));
                new_request = true;
            }
            Ev::DisableOnly(k) => {
                sent = Some(app::request(next_seq(&mut self.last_seq), fc::DISABLE_UNSOLICITED, &app::hdr_all(60, 1 + *k)));
                new_request = true;
                disable = Some(self.last_seq);
            }
            Ev::Disable => {
                sent = Some(app::request(
                    next_seq(&mut self.last_seq),
                    fc::DISABLE_UNSOLICITED,
                    &app::class_headers(true, true, true, false),
                ));
                new_request = true;
                disable = Some(self.last_seq);
            }
            Ev::EnableC1 => {
                sent = Some(app::request(next_seq(&mut self.last_seq), fc::ENABLE_UNSOLICITED, &app::hdr_all(60, 2)));
                new_request = true;
            }
            Ev::EnableAll => {
                sent = Some(app::request(
                    next_seq(&mut self.last_seq),
                    fc::ENABLE_UNSOLICITED,
                    &app::class_headers(true, true, true, false),
                ));
                new_request = true;
            }
            Ev::Other => {
                sent = Some(app::request(next_seq(&mut self.last_seq), fc::DELAY_MEASURE, &[]));
                new_request = true;
            }
            Ev::BadRead => {
                sent = Some(app::request(next_seq(&mut self.last_seq), fc::READ, &[200, 0, 0x06]));
                new_request = true;
            }
            Ev::Reconnect => {
                self.sim.reconnect();
                reconnect = true;
            }
            Ev::Replace => {
                self.sim.connect(false);
                reconnect = true;
            }
            Ev::Broadcast(mode) => {
                let f = app::request(next_seq(&mut self.last_seq), fc::RECORD_CURRENT_TIME, &[]);
                let dst = match mode {
                    0 => 0xFFFF,
                    1 => 0xFFFE,
                    _ => 0xFFFD,
                };
                new_request = true;
                broadcast_dst = Some(dst);
                if let Some(m) = &mut self.ledger.iin {
                    m.pending.push(Some(*mode));
                }
                sent = Some(f);
            }
            Ev::WriteRestart(v) => {
                sent = Some(app::request(next_seq(&mut self.last_seq), fc::WRITE, &app::write_restart_objects(*v)));
                new_request = true;
                if !*v {
                    if let Some(m) = &mut self.ledger.iin {
                        m.pending.push(None);
                    }
                }
            }
            Ev::AppIin(k) => {
                let mut a = self.sim.app.lock().unwrap();
                match k {
                    0 => a.iin.need_time = !a.iin.need_time,
                    1 => a.iin.local_control = !a.iin.local_control,
                    2 => a.iin.device_trouble = !a.iin.device_trouble,
                    _ => a.iin.config_corrupt = !a.iin.config_corrupt,
                }
                if let Some(m) = &mut self.ledger.iin {
                    m.need_time = a.iin.need_time;
                    m.local_control = a.iin.local_control;
                    m.device_trouble = a.iin.device_trouble;
                    m.config_corrupt = a.iin.config_corrupt;
                }
            }
        }
        if let Some(f) = &sent {
            match broadcast_dst {
                Some(dst) => self.sim.send_from(crate::osim::MASTER_ADDR, dst, f),
                None => self.sim.send(f),
            }
        }
        let step = collect(&mut self.sim, res, obs, &format!("{ev:?}"), sent.as_deref(), transcript);
        if let Some(f) = self.sim.failure() {
            return Some(Violation::new("C03.X0", f.clone(), f));
        }
        // Q1: a solicited response that follows a READ (answered at once or deferred until the
        // unsolicited series ends) carries only what *that* READ asked for -- nothing of a
        // request it superseded
        if new_request {
            self.last_read = match ev {
                Ev::Read(..) | Ev::ReadBinaryEvents => Some((self.last_seq, false)),
                Ev::ReadClass0 => Some((self.last_seq, true)),
                Ev::RepeatRead => self.last_read,
                _ => None,
            };
            if matches!(ev, Ev::Read(..) | Ev::ReadBinaryEvents | Ev::ReadClass0) {
                self.last_read_request = sent.clone().map(|f| (f, selected));
            }
        }
        if reconnect {
            self.last_read = None;
        }
        if let Some((seq, wants_static)) = self.last_read {
            for r in step.resps() {
                if r.uns() || r.func != fc::RESPONSE {
                    continue;
                }
                if let Ok(hs) = r.headers() {
                    for h in hs {
                        let is_static = matches!(h.group, 1 | 3 | 10 | 20 | 21 | 30 | 40 | 110);
                        let is_event = matches!(h.group, 2 | 4 | 11 | 22 | 23 | 32 | 42 | 111);
                        if (is_static && !wants_static) || (is_event && wants_static) {
                            return Some(Violation::new(
                                "C03.Q1",
                                "response-carries-objects-the-read-did-not-ask-for",
                                format!("READ seq {seq} asked for {} only; response {} carries g{}v{}", if wants_static { "class 0" } else { "events" }, app::hex(&r.raw[..r.raw.len().min(24)]), h.group, h.var),
                            ));
                        }
                    }
                }
            }
        }
        // a READ during an unsolicited confirm wait is deferred: it does not end a solicited wait
        // (none can be active then) and selection applies when it is answered
        let v = self.ledger.observe(&step, confirm, new_request, disable, reconnect, selected);
        res.model_states.push(self.ledger.key(step.now));
        self.last_step = Some(step);
        self.last_sent = sent;
        v
    }

    /// R5: every held event is delivered and released by an ideal master
    pub fn drain(&mut self, res: &mut RunResult, obs: &mut Hasher, transcript: bool, unsol: bool) -> Option<Violation> {
        if unsol {
            if let Some(v) = self.apply(&Ev::Disable, res, obs, transcript) {
                return Some(v);
            }
        }
        if let Some(v) = self.apply(&Ev::Timeout, res, obs, transcript) {
            return Some(v);
        }
        for _ in 0..8 {
            if self.ledger.held().count() == 0 {
                break;
            }
            if let Some(v) = self.apply(&Ev::Read(true, true, true, None), res, obs, transcript) {
                return Some(v);
            }
            // confirm every fragment of the series
            for _ in 0..8 {
                if self.ledger.sol.is_none() {
                    break;
                }
                if let Some(v) = self.apply(&Ev::SolConfirm(true), res, obs, transcript) {
                    return Some(v);
                }
            }
        }
        let stuck: Vec<u64> = self.ledger.held().map(|r| r.id).collect();
        if !stuck.is_empty() {
            return Some(Violation::new(
                "C03.R5",
                "held-events-not-delivered-by-drain",
                format!("events {stuck:?} were neither released nor reported discarded after polling classes 1/2/3 with confirms"),
            ));
        }
        None
    }
}

pub fn start_with_iin(cfg: &OCfg, unsol: bool, cto: bool) -> Driver {
    let mut d = start(cfg, unsol, cto);
    d.ledger.iin = Some(IinModel::new(cfg.event_buf[0] as usize));
    d
}

/// no start-up prefix: the outstation has just been created (C14 explores the start-up rules)
pub fn start_raw(cfg: &OCfg, cto: bool) -> Driver {
    let mut sim = OSim::new(cfg, 1);
    setup_db(&mut sim, cto);
    Driver { sim, last_step: None, last_sent: None, ledger: Ledger::default(), last_seq: 0, updates: [0; 4], sol_expected: 0, uns_expected: 0, last_read: None, last_read_request: None }
}

pub fn start(cfg: &OCfg, unsol: bool, cto: bool) -> Driver {
    let mut sim = OSim::new(cfg, 1);
    setup_db(&mut sim, cto);
    let mut last_seq = 0u8;
    if unsol {
        common::null_unsol_handshake(&mut sim);
        last_seq = 1;
        sim.send(&app::request(last_seq, fc::ENABLE_UNSOLICITED, &app::class_headers(true, true, true, false)));
    }
    sim.take_out();
    sim.take_cb();
    Driver { sim, last_step: None, last_sent: None, ledger: Ledger::default(), last_seq, updates: [0; 4], sol_expected: 0, uns_expected: 0, last_read: None, last_read_request: None }
}

impl Scenario for C03 {
    fn name(&self) -> String {
        self.name.clone()
    }
    fn alphabet(&self) -> Vec<String> {
        self.alphabet.iter().map(|e| format!("{e:?}")).collect()
    }
    fn depth(&self) -> usize {
        self.depth
    }
    fn run(&self, path: &[usize], transcript: bool) -> RunResult {
        let mut res = RunResult::default();
        let mut obs = Hasher::default();
        let cfg = self.cfg();
        let mut d = start(&cfg, self.unsol, self.cto);
        if self.overflow_model {
            let mut m = IinModel::new(cfg.event_buf[0] as usize);
            m.overflow_only = true;
            d.ledger.iin = Some(m);
        }
        for &i in path {
            if let Some(v) = d.apply(&self.alphabet[i], &mut res, &mut obs, transcript) {
                res.violation = Some(v);
                break;
            }
        }
        if res.violation.is_none() {
            if transcript {
                res.transcript.push("-- drain --".to_string());
            }
            res.violation = d.drain(&mut res, &mut obs, transcript, self.unsol);
        }
        res.obs = obs.0;
        res.nontrivial = d.ledger.transmissions > 0 && d.ledger.rows.len() > 0;
        res
    }
}

fn scenarios(tier: &str) -> Vec<C03> {
    let mk = |name: &str, a: Vec<Ev>, depth: usize, unsol: bool, buf: u16, cto: bool, retries: Option<usize>| C03 {
        name: name.to_string(),
        alphabet: a,
        depth,
        unsol,
        buf,
        cto,
        retries,
        overflow_model: false,
    };
    let mut v = vec![
        mk("poll-d4-buf5", alphabet(false, true), 4, false, 5, false, Some(0)),
        mk("poll-d4-buf1", alphabet(false, true), 4, false, 1, false, Some(0)),
        mk("unsol-d4-buf5", alphabet(true, false), 4, true, 5, false, Some(0)),
        mk("unsol-d4-buf1", alphabet(true, false), 4, true, 1, false, Some(0)),
        mk("unsol-d3-buf2-cto-retry1", alphabet(true, true), 3, true, 2, true, Some(1)),
    ];
    // a displaced event is lost *reported*: the overflow indication from a discard until a
    // confirmation leaves every type below capacity
    let ovf = vec![Ev::Upd(Pt::A0), Ev::Upd(Pt::C0), Ev::Read(false, true, false, None), Ev::SolConfirm(true), Ev::Other, Ev::Read(true, true, true, None), Ev::Upd(Pt::B0), Ev::Upd(Pt::B1)];
    let mut s = mk("overflow-reported-d5-buf1", ovf.clone(), 5, false, 1, false, Some(0));
    s.overflow_model = true;
    v.push(s);
    // an unsolicited response that was never confirmed, then a confirmation of something else
    // (the answer to a request after a confirm-mandatory broadcast asks for one)
    let bc = vec![Ev::Upd(Pt::B0), Ev::Timeout, Ev::Broadcast(1), Ev::Other, Ev::SolConfirm(true), Ev::UnsConfirm(true), Ev::Disable, Ev::Read(true, false, false, None)];
    v.push(mk("unsol-broadcast-d5-buf5", bc.clone(), 5, true, 5, false, Some(0)));
    // a solicited series aborted by a broadcast, then a confirmation of something else
    let pbc = vec![Ev::Upd(Pt::B0), Ev::Read(true, false, false, None), Ev::Broadcast(1), Ev::Other, Ev::SolConfirm(true), Ev::Timeout, Ev::Broadcast(0)];
    v.push(mk("poll-broadcast-d5-buf5", pbc.clone(), 5, false, 5, false, Some(0)));
    if tier == "thorough" {
        let mut s = mk("overflow-reported-d6-buf2", ovf.clone(), 6, false, 2, false, Some(0));
        s.overflow_model = true;
        v.push(s);
        let mut s = mk("overflow-reported-d6-buf1-unsol", { let mut a = ovf.clone(); a.extend([Ev::UnsConfirm(true), Ev::Timeout]); a }, 6, true, 1, false, Some(0));
        s.overflow_model = true;
        v.push(s);
        v.push(mk("unsol-broadcast-d6-buf1-retry1", { let mut a = bc.clone(); a.extend([Ev::Broadcast(0), Ev::Upd(Pt::B1)]); a }, 6, true, 1, false, Some(1)));
        v.push(mk("unsol-d5-buf1", alphabet(true, true), 5, true, 1, false, Some(0)));
        v.push(mk("unsol-d5-buf2-retry1", alphabet(true, true), 5, true, 2, false, Some(1)));
        v.push(mk("poll-d5-buf2-cto", alphabet(false, true), 5, false, 2, true, Some(0)));
        v.push(mk("unsol-reduced-d6-buf1", reduced(true), 6, true, 1, false, Some(0)));
        v.push(mk("unsol-reduced-d6-buf2-cto", reduced(true), 6, true, 2, true, Some(1)));
        v.push(mk("poll-reduced-d7-buf1", reduced(false), 7, false, 1, false, Some(0)));
    }
    v
}

pub fn replay(scenario: &str, path: &[usize]) -> Option<RunResult> {
    use crate::explore::CaseSpace;
    if scenario == super::c03x::PerType.name() {
        return Some(super::c03x::PerType.run(path[0], true));
    }
    if scenario == super::c03x::PairedRelease.name() {
        return Some(super::c03x::PairedRelease.run(path[0], true));
    }
    if scenario == (super::c10::Cto { id: "C03" }).name() {
        return Some(super::c10::Cto { id: "C03" }.run(path[0], true));
    }
    if scenario == (super::c03x::EventVariations { id: "C03" }).name() {
        return Some(super::c03x::EventVariations { id: "C03" }.run(path[0], true));
    }
    if scenario == (super::c03x::Capacities { id: "C03" }).name() {
        return Some(super::c03x::Capacities { id: "C03" }.run(path[0], true));
    }
    for tier in ["quick", "thorough"] {
        if let Some(s) = super::c03x::series(tier).into_iter().find(|s| s.name() == scenario) {
            return Some(s.run(path, true));
        }
        if let Some(s) = super::c03x::release_orders(tier).into_iter().find(|s| s.name() == scenario) {
            return Some(s.run(path, true));
        }
    }
    scenarios("thorough").into_iter().find(|s| s.name == scenario).map(|s| s.run(path, true))
}

pub fn check(tier: &str) -> i32 {
    let mut c = Check::new("C03", tier);
    for s in scenarios(tier) {
        c.explore(&s);
    }
    c.cases(&super::c03x::PerType);
    c.cases(&super::c03x::Capacities { id: "C03" });
    c.cases(&super::c03x::EventVariations { id: "C03" });
    c.cases(&super::c03x::PairedRelease);
    // events are reported as recorded, including the quality of their time: the
    // common-time-of-occurrence product of C10 (all orders of <= 3 events, mixed synchronisation)
    c.cases(&super::c10::Cto { id: "C03" });
    for s in super::c03x::series(tier) {
        c.explore(&s);
    }
    for s in super::c03x::release_orders(tier) {
        c.explore(&s);
    }
    c.finish(
        "model_checking",
        "(per-type accounting) each of the 8 event types x per-type limit {1,2} x {only that type has room, all types} x 1..=5 updates x {one point, two points in different classes}: update2 reports Created / Overflow(oldest) exactly as a bounded FIFO per type says, the survivors are offered, the confirmed ones released (event_cleared ids); (event series) 40 analog / 5 large octet-string events (thorough: + 60 binary, 45 counter) answered in several fragments at tx 249: every history of depth 3 (5) over {READ, right confirm, wrong confirm, confirm timeout, another request, one more update, reconnect} followed by a drain: released ids are exactly those of the confirmed fragment, every fragment carries the oldest updates still owed, nothing is left; (release order) two points of one type in two classes, every history of depth 6 (7) over {update either point, READ a class, READ one event of a class, READ everything} each READ confirmed: responses and released ids equal a plain list's; (ledger) every event history over the listed alphabet (updates of 4 points in 3 classes incl. two same-type points in different classes, READs by class / with count limit / by type / class 0, right and wrong solicited and unsolicited confirms, confirm timeout, DISABLE/ENABLE_UNSOLICITED, another request, reconnect) up to the listed depth, followed by a fixed drain (poll classes 1/2/3 with confirms), executed on the real OutstationTask; the ledger oracle is evaluated after every event; non-trivial = at least one event was recorded and at least one event-bearing response was transmitted; distinct = distinct observation trace",
        &[
            "the driver advances time only in whole confirm timeouts, so 'still awaiting confirmation' is decided by t_sent + timeout > now",
            "event values/times are unique per update so that a transmitted object identifies its ledger row",
            "per-type buffer sizes {1,2,5}; event variations with absolute time (g2v2/g32v3/g22v5) and one CTO configuration (g2v3)",
        ],
        serde_json::json!({"confirm_timeout_ms": TO}),
    )
}
