//! C10 — measurement values survive the trip from outstation database to master handler.
//!
//! IN: boundary values x flag octets x timestamps x every static and event variation of the
//! eight point types; pipeline = real Database::update -> real outstation response writers
//! (through the real OutstationTask) -> bytes -> (i) engine decoder, (ii) the library's
//! `extract_measurements` into a recording ReadHandler. Oracle = "what the variation can carry".

use std::sync::{Arc, Mutex};

use dnp3::app::measurement::*;
use dnp3::app::Timestamp;
use dnp3::outstation::database::*;
use dnp3::verif::seams;

use crate::explore::{CaseSpace, Check, Hasher, RunResult, Violation};
use crate::msim::{Handler, MCb, MCbLogInner, Val as HVal};
use crate::osim::{OCfg, OSim};
use crate::wire::app::{self, fc};
use crate::wire::objects::{decode_measurements, Kind, Meas, Val};

#[derive(Copy, Clone, Debug, PartialEq, Eq)]
enum Ty {
    Binary,
    Double,
    BoStatus,
    Counter,
    Frozen,
    Analog,
    AoStatus,
    Octets,
}

impl Ty {
    fn kind(self) -> Kind {
        match self {
            Ty::Binary => Kind::Binary,
            Ty::Double => Kind::DoubleBit,
            Ty::BoStatus => Kind::BinaryOutputStatus,
            Ty::Counter => Kind::Counter,
            Ty::Frozen => Kind::FrozenCounter,
            Ty::Analog => Kind::Analog,
            Ty::AoStatus => Kind::AnalogOutputStatus,
            Ty::Octets => Kind::OctetString,
        }
    }
    fn hname(self) -> &'static str {
        match self {
            Ty::Binary => "binary",
            Ty::Double => "double",
            Ty::BoStatus => "bostatus",
            Ty::Counter => "counter",
            Ty::Frozen => "frozencounter",
            Ty::Analog => "analog",
            Ty::AoStatus => "aostatus",
            Ty::Octets => "octets",
        }
    }
    fn static_vars(self) -> Vec<u8> {
        match self {
            Ty::Binary | Ty::Double | Ty::BoStatus => vec![1, 2],
            Ty::Counter => vec![1, 2, 5, 6],
            Ty::Frozen => vec![1, 2, 5, 6, 9, 10],
            Ty::Analog => vec![1, 2, 3, 4, 5, 6],
            Ty::AoStatus => vec![1, 2, 3, 4],
            Ty::Octets => vec![0],
        }
    }
    fn event_vars(self) -> Vec<u8> {
        match self {
            Ty::Binary | Ty::Double => vec![1, 2, 3],
            Ty::BoStatus => vec![1, 2],
            Ty::Counter | Ty::Frozen => vec![1, 2, 5, 6],
            Ty::Analog | Ty::AoStatus => vec![1, 2, 3, 4, 5, 6, 7, 8],
            Ty::Octets => vec![0],
        }
    }
    /// state bits folded into the flag octet
    fn state_mask(self) -> u8 {
        match self {
            Ty::Binary | Ty::BoStatus => 0x80,
            Ty::Double => 0xC0,
            _ => 0,
        }
    }
}

#[derive(Clone, Debug, PartialEq)]
enum In {
    B(bool),
    D(u8),
    U(u32),
    F(f64),
    Bytes(Vec<u8>),
}

#[derive(Clone, Debug)]
struct Case {
    ty: Ty,
    s_var: u8,
    e_var: u8,
    value: In,
    flags: u8,
    time: Option<(u64, bool)>,
    index: u16,
}

fn mk_time(t: Option<(u64, bool)>) -> Option<Time> {
    t.map(|(ms, sync)| if sync { Time::Synchronized(Timestamp::new(ms)) } else { Time::Unsynchronized(Timestamp::new(ms)) })
}

fn add_point(db: &mut Database, c: &Case) -> bool {
    let class = Some(EventClass::Class1);
    match c.ty {
        Ty::Binary => {
            let s = if c.s_var == 1 { StaticBinaryInputVariation::Group1Var1 } else { StaticBinaryInputVariation::Group1Var2 };
            let e = match c.e_var {
                1 => EventBinaryInputVariation::Group2Var1,
                2 => EventBinaryInputVariation::Group2Var2,
                _ => EventBinaryInputVariation::Group2Var3,
            };
            db.add(c.index, class, BinaryInputConfig::new(s, e))
        }
        Ty::Double => {
            let s = if c.s_var == 1 { StaticDoubleBitBinaryInputVariation::Group3Var1 } else { StaticDoubleBitBinaryInputVariation::Group3Var2 };
            let e = match c.e_var {
                1 => EventDoubleBitBinaryInputVariation::Group4Var1,
                2 => EventDoubleBitBinaryInputVariation::Group4Var2,
                _ => EventDoubleBitBinaryInputVariation::Group4Var3,
            };
            db.add(c.index, class, DoubleBitBinaryInputConfig::new(s, e))
        }
        Ty::BoStatus => {
            let s = if c.s_var == 1 { StaticBinaryOutputStatusVariation::Group10Var1 } else { StaticBinaryOutputStatusVariation::Group10Var2 };
            let e = if c.e_var == 1 { EventBinaryOutputStatusVariation::Group11Var1 } else { EventBinaryOutputStatusVariation::Group11Var2 };
            db.add(c.index, class, BinaryOutputStatusConfig::new(s, e))
        }
        Ty::Counter => {
            let s = match c.s_var {
                1 => StaticCounterVariation::Group20Var1,
                2 => StaticCounterVariation::Group20Var2,
                5 => StaticCounterVariation::Group20Var5,
                _ => StaticCounterVariation::Group20Var6,
            };
            let e = match c.e_var {
                1 => EventCounterVariation::Group22Var1,
                2 => EventCounterVariation::Group22Var2,
                5 => EventCounterVariation::Group22Var5,
                _ => EventCounterVariation::Group22Var6,
            };
            db.add(c.index, class, CounterConfig::new(s, e, 0))
        }
        Ty::Frozen => {
            let s = match c.s_var {
                1 => StaticFrozenCounterVariation::Group21Var1,
                2 => StaticFrozenCounterVariation::Group21Var2,
                5 => StaticFrozenCounterVariation::Group21Var5,
                6 => StaticFrozenCounterVariation::Group21Var6,
                9 => StaticFrozenCounterVariation::Group21Var9,
                _ => StaticFrozenCounterVariation::Group21Var10,
            };
            let e = match c.e_var {
                1 => EventFrozenCounterVariation::Group23Var1,
                2 => EventFrozenCounterVariation::Group23Var2,
                5 => EventFrozenCounterVariation::Group23Var5,
                _ => EventFrozenCounterVariation::Group23Var6,
            };
            db.add(c.index, class, FrozenCounterConfig::new(s, e, 0))
        }
        Ty::Analog => {
            let s = match c.s_var {
                1 => StaticAnalogInputVariation::Group30Var1,
                2 => StaticAnalogInputVariation::Group30Var2,
                3 => StaticAnalogInputVariation::Group30Var3,
                4 => StaticAnalogInputVariation::Group30Var4,
                5 => StaticAnalogInputVariation::Group30Var5,
                _ => StaticAnalogInputVariation::Group30Var6,
            };
            let e = match c.e_var {
                1 => EventAnalogInputVariation::Group32Var1,
                2 => EventAnalogInputVariation::Group32Var2,
                3 => EventAnalogInputVariation::Group32Var3,
                4 => EventAnalogInputVariation::Group32Var4,
                5 => EventAnalogInputVariation::Group32Var5,
                6 => EventAnalogInputVariation::Group32Var6,
                7 => EventAnalogInputVariation::Group32Var7,
                _ => EventAnalogInputVariation::Group32Var8,
            };
            db.add(c.index, class, AnalogInputConfig::new(s, e, 0.0))
        }
        Ty::AoStatus => {
            let s = match c.s_var {
                1 => StaticAnalogOutputStatusVariation::Group40Var1,
                2 => StaticAnalogOutputStatusVariation::Group40Var2,
                3 => StaticAnalogOutputStatusVariation::Group40Var3,
                _ => StaticAnalogOutputStatusVariation::Group40Var4,
            };
            let e = match c.e_var {
                1 => EventAnalogOutputStatusVariation::Group42Var1,
                2 => EventAnalogOutputStatusVariation::Group42Var2,
                3 => EventAnalogOutputStatusVariation::Group42Var3,
                4 => EventAnalogOutputStatusVariation::Group42Var4,
                5 => EventAnalogOutputStatusVariation::Group42Var5,
                6 => EventAnalogOutputStatusVariation::Group42Var6,
                7 => EventAnalogOutputStatusVariation::Group42Var7,
                _ => EventAnalogOutputStatusVariation::Group42Var8,
            };
            db.add(c.index, class, AnalogOutputStatusConfig::new(s, e, 0.0))
        }
        Ty::Octets => db.add(c.index, class, OctetStringConfig),
    }
}

fn update_point(db: &mut Database, c: &Case) -> UpdateInfo {
    let fl = Flags::new(c.flags);
    let t = mk_time(c.time);
    let opt = UpdateOptions::new(true, EventMode::Force);
    match (&c.value, c.ty) {
        (In::B(v), Ty::Binary) => db.update2(c.index, &BinaryInput { value: *v, flags: fl, time: t }, opt),
        (In::B(v), Ty::BoStatus) => db.update2(c.index, &BinaryOutputStatus { value: *v, flags: fl, time: t }, opt),
        (In::D(v), _) => {
            let d = match v {
                0 => DoubleBit::Intermediate,
                1 => DoubleBit::DeterminedOff,
                2 => DoubleBit::DeterminedOn,
                _ => DoubleBit::Indeterminate,
            };
            db.update2(c.index, &DoubleBitBinaryInput { value: d, flags: fl, time: t }, opt)
        }
        (In::U(v), Ty::Counter) => db.update2(c.index, &Counter { value: *v, flags: fl, time: t }, opt),
        (In::U(v), _) => db.update2(c.index, &FrozenCounter { value: *v, flags: fl, time: t }, opt),
        (In::F(v), Ty::Analog) => db.update2(c.index, &AnalogInput { value: *v, flags: fl, time: t }, opt),
        (In::F(v), _) => db.update2(c.index, &AnalogOutputStatus { value: *v, flags: fl, time: t }, opt),
        (In::Bytes(b), _) => db.update2(c.index, &OctetString::new(b).unwrap(), opt),
        _ => UpdateInfo::NoPoint,
    }
}

const OVER_RANGE: u8 = 0x20;

/// What the variation can carry: compare a decoded wire object with the original.
fn check_wire(c: &Case, m: &Meas) -> Result<(), (String, String)> {
    let fail = |k: &str, d: String| Err((k.to_string(), d));
    let tag = format!("g{}v{}", m.group, m.var);
    if m.index != c.index as u32 {
        return fail("index-changed", format!("{tag}: index {} instead of {}", m.index, c.index));
    }
    // value
    let mut expect_over: Option<bool> = None; // Some(true): OVER_RANGE must be set; Some(false): as in the original
    match (&c.value, &m.val) {
        (In::B(v), Val::Bool(x)) => {
            if v != x {
                return fail("binary-value-changed", format!("{tag}: {x} instead of {v}"));
            }
        }
        (In::D(v), Val::Dbit(x)) => {
            if v != x {
                return fail("double-bit-value-changed", format!("{tag}: {x} instead of {v}"));
            }
        }
        (In::U(v), Val::U32(x)) => {
            if v != x {
                return fail("counter-value-changed", format!("{tag}: {x} instead of {v}"));
            }
        }
        (In::U(v), Val::U16(x)) => {
            if (*v & 0xFFFF) as u16 != *x {
                return fail("counter-low-16-bits-not-kept", format!("{tag}: {x} instead of {}", v & 0xFFFF));
            }
        }
        (In::F(v), Val::F64(x)) => {
            if !(v == x || (v.is_nan() && x.is_nan())) {
                return fail("f64-value-changed", format!("{tag}: {x} instead of {v}"));
            }
            expect_over = Some(false);
        }
        (In::F(v), Val::F32(x)) => {
            let max = f32::MAX as f64;
            if v.is_nan() {
                if !x.is_nan() {
                    return fail("nan-changed", format!("{tag}: NaN became {x}"));
                }
                expect_over = Some(false);
            } else if v.is_infinite() {
                // representable in f32; saturating with OVER_RANGE is accepted as well
                if *x == *v as f32 {
                    expect_over = None;
                } else if (*x == f32::MAX && *v > 0.0) || (*x == f32::MIN && *v < 0.0) {
                    expect_over = Some(true);
                } else {
                    return fail("infinity-not-carried-nor-saturated", format!("{tag}: {v} became {x}"));
                }
            } else if *v > max || *v < -max {
                let want = if *v > 0.0 { f32::MAX } else { f32::MIN };
                if *x != want {
                    return fail("analog-not-saturated", format!("{tag}: {v} became {x}, expected {want}"));
                }
                expect_over = Some(true);
            } else {
                if *x != *v as f32 {
                    return fail("f32-rounding", format!("{tag}: {v} became {x}, expected {}", *v as f32));
                }
                expect_over = Some(false);
            }
        }
        (In::F(v), Val::I32(_)) | (In::F(v), Val::I16(_)) => {
            let (got, lo, hi) = match &m.val {
                Val::I32(x) => (*x as f64, i32::MIN as f64, i32::MAX as f64),
                Val::I16(x) => (*x as f64, i16::MIN as f64, i16::MAX as f64),
                _ => unreachable!(),
            };
            if v.is_nan() {
                // not representable: must be flagged (the value itself is unspecified)
                expect_over = Some(true);
            } else if *v > hi {
                if got != hi {
                    return fail("analog-not-saturated", format!("{tag}: {v} became {got}, expected {hi}"));
                }
                expect_over = Some(true);
            } else if *v < lo {
                if got != lo {
                    return fail("analog-not-saturated", format!("{tag}: {v} became {got}, expected {lo}"));
                }
                expect_over = Some(true);
            } else {
                if got != v.trunc() {
                    return fail("analog-integer-value-changed", format!("{tag}: {v} became {got}, expected {}", v.trunc()));
                }
                expect_over = Some(false);
            }
        }
        (In::Bytes(b), Val::Bytes(x)) => {
            if b != x {
                return fail("octet-string-changed", format!("{tag}: {} instead of {}", app::hex(x), app::hex(b)));
            }
        }
        (a, b) => return fail("unexpected-object-type", format!("{tag}: {a:?} reported as {b:?}")),
    }
    // flags
    let sm = c.ty.state_mask();
    match m.flags {
        Some(f) => {
            let mut want = c.flags & !sm;
            let got = f & !sm;
            match expect_over {
                Some(true) => want |= OVER_RANGE,
                Some(false) => {}
                None => {
                    // either: compare modulo OVER_RANGE
                    if (got & !OVER_RANGE) != (want & !OVER_RANGE) {
                        return fail("flags-changed", format!("{tag}: flags {f:02X} instead of {:02X}", c.flags));
                    }
                    want = got;
                }
            }
            if got != want {
                let k = if (got ^ want) == OVER_RANGE {
                    if want & OVER_RANGE != 0 {
                        "over-range-not-flagged"
                    } else {
                        "over-range-flagged-without-reason"
                    }
                } else {
                    "flags-changed"
                };
                return fail(k, format!("{tag}: flags {f:02X}, expected {want:02X} (original {:02X}, value {:?})", c.flags, c.value));
            }
        }
        None => {
            let packed = matches!((m.group, m.var), (1, 1) | (3, 1) | (10, 1));
            if packed && (c.flags & !sm) != 0x01 {
                return fail("packed-format-for-point-that-is-not-plainly-online", format!("{tag}: original flags {:02X}", c.flags));
            }
            if expect_over == Some(true) {
                // nothing to flag with: accepted (no flag octet)
            }
        }
    }
    // time
    if let (Some((t, sync)), Some((ct, csync))) = (m.time, c.time) {
        if t != ct {
            return fail("time-changed", format!("{tag}: time {t} instead of {ct}"));
        }
        let relative = matches!((m.group, m.var), (2, 3) | (4, 3));
        if relative && sync != csync {
            return fail("time-quality-changed", format!("{tag}: synchronized={sync} instead of {csync}"));
        }
    }
    Ok(())
}

/// compare what the library's extraction handed to the handler with the decoded wire object
fn check_handler(c: &Case, m: &Meas, h: &HVal) -> Result<(), (String, String)> {
    let fail = |k: &str, d: String| Err((k.to_string(), d));
    let tag = format!("g{}v{}", m.group, m.var);
    if h.kind != c.ty.hname() {
        return fail("handler-type-differs", format!("{tag}: delivered as {}", h.kind));
    }
    if h.index as u32 != m.index {
        return fail("handler-index-differs", format!("{tag}: index {} vs wire {}", h.index, m.index));
    }
    match &m.val {
        Val::Bytes(b) => {
            if *b != h.bytes {
                return fail("handler-value-differs", format!("{tag}: bytes differ"));
            }
        }
        v => {
            let w = v.as_f64().unwrap();
            if !(w == h.value || (w.is_nan() && h.value.is_nan())) {
                return fail("handler-value-differs", format!("{tag}: wire {w} handler {}", h.value));
            }
        }
    }
    let sm = c.ty.state_mask();
    if let Some(f) = m.flags {
        if (f & !sm) != (h.flags & !sm) {
            return fail("handler-flags-differ", format!("{tag}: wire {f:02X} handler {:02X}", h.flags));
        }
    }
    match (m.time, h.time) {
        (Some((t, sync)), Some((ht, q))) => {
            if t != ht {
                return fail("handler-time-differs", format!("{tag}: wire {t} handler {ht}"));
            }
            let relative = matches!((m.group, m.var), (2, 3) | (4, 3));
            if relative && (q == 0) != sync {
                return fail("handler-time-quality-differs", format!("{tag}: wire sync={sync} handler quality {q}"));
            }
        }
        (None, Some((ht, _))) => {
            if ht != 0 {
                return fail("handler-invented-time", format!("{tag}: handler time {ht} although the variation carries none"));
            }
        }
        (Some((t, _)), None) => return fail("handler-lost-time", format!("{tag}: wire time {t}")),
        (None, None) => {}
    }
    Ok(())
}

/// run the library's extraction over a response fragment
fn extract(frag: &[u8]) -> Option<Vec<HVal>> {
    let log: Arc<Mutex<MCbLogInner>> = Default::default();
    let mut h = Handler { log: log.clone(), tag: "" };
    if !seams::app_extract(frag, &mut h) {
        return None;
    }
    let g = log.lock().unwrap();
    Some(
        g.v.iter()
            .filter_map(|c| match c {
                MCb::Value(v) => Some(v.clone()),
                _ => None,
            })
            .collect(),
    )
}

fn run_case(c: &Case, transcript: bool) -> RunResult {
    let mut res = RunResult::default();
    let mut obs = Hasher::default();
    obs.add_str(&format!("{c:?}"));
    res.obs = obs.0;
    let cfg = OCfg { event_buf: [5; 8], class_zero_octet_strings: true, ..Default::default() };
    let mut sim = OSim::new(&cfg, 1);
    let added = sim.db(|db| add_point(db, c));
    let info = sim.db(|db| update_point(db, c));
    sim.take_out();
    sim.send(&app::request(1, fc::READ, &app::class_headers(true, true, true, true)));
    res.transitions += 1;
    let mut frags: Vec<Vec<u8>> = Vec::new();
    for _ in 0..4 {
        let out = sim.take_out();
        let mut con = None;
        for t in out {
            if let Some(f) = t.frag() {
                frags.push(f.to_vec());
                if f[0] & app::CON != 0 {
                    con = Some(f[0] & 0x0F);
                }
            }
        }
        match con {
            Some(s) => sim.send(&app::confirm(s, false)),
            None => break,
        }
    }
    if let Some(f) = sim.failure() {
        res.violation = Some(Violation::new("C10.X0", f.clone(), f));
        return res;
    }
    if transcript {
        res.transcript.push(format!("{c:?} added={added} update={info:?}"));
        for f in &frags {
            res.transcript.push(format!("<- {}", app::hex(f)));
        }
    }
    let mut ev_seen = 0;
    let mut st_seen = 0;
    for f in &frags {
        let Some(r) = app::Resp::parse(f) else { continue };
        let hs = match r.headers() {
            Ok(h) => h,
            Err(e) => {
                res.violation = Some(Violation::new("C10.W0", "response-not-decodable", format!("{e:?}")));
                return res;
            }
        };
        let ms = match decode_measurements(&hs) {
            Ok(m) => m,
            Err(e) => {
                res.violation = Some(Violation::new("C10.W0", "objects-not-decodable", e));
                return res;
            }
        };
        let hv = extract(f);
        let mine: Vec<&Meas> = ms.iter().filter(|m| m.kind == c.ty.kind()).collect();
        let hv_mine: Vec<&HVal> = hv.as_ref().map(|v| v.iter().filter(|x| x.kind == c.ty.hname()).collect()).unwrap_or_default();
        if hv.is_none() || hv_mine.len() != mine.len() {
            res.violation = Some(Violation::new(
                "C10.H0",
                "handler-object-count-differs",
                format!("wire has {} objects of the type, handler received {:?}", mine.len(), hv.map(|v| v.len())),
            ));
            return res;
        }
        for (m, h) in mine.iter().zip(hv_mine.iter()) {
            // which variation was used
            let want_var = if m.is_event { c.e_var } else { c.s_var };
            let sm = c.ty.state_mask();
            let promoted = !m.is_event && want_var == 1 && matches!(c.ty, Ty::Binary | Ty::Double | Ty::BoStatus) && (c.flags & !sm) != 0x01;
            let var_ok = c.ty == Ty::Octets || m.var == want_var || (promoted && m.var == 2);
            if !var_ok {
                res.violation = Some(Violation::new(
                    "C10.V1",
                    format!("unexpected-variation:g{}v{}", m.group, m.var),
                    format!("configured static {} event {}, flags {:02X}", c.s_var, c.e_var, c.flags),
                ));
                return res;
            }
            if let Err((k, d)) = check_wire(c, m) {
                res.violation = Some(Violation::new("C10.E1", format!("{k}:g{}v{}", m.group, m.var), d));
                return res;
            }
            if let Err((k, d)) = check_handler(c, m, h) {
                res.violation = Some(Violation::new("C10.H1", format!("{k}:g{}v{}", m.group, m.var), d));
                return res;
            }
            if m.is_event {
                ev_seen += 1;
            } else {
                st_seen += 1;
            }
        }
    }
    if ev_seen != 1 || st_seen != 1 {
        res.violation = Some(Violation::new(
            "C10.N1",
            "point-not-reported-once-as-event-and-once-as-static",
            format!("{} event objects and {} static objects for the point", ev_seen, st_seen),
        ));
    }
    res.model_states.push(c.s_var as u64 * 16 + c.e_var as u64 + 1000 * c.ty as u64);
    res.nontrivial = true;
    res
}

struct Values {
    name: String,
    cases: Vec<Case>,
}

fn flag_menu(tier: &str) -> Vec<u8> {
    if tier == "quick" {
        vec![0x01, 0x00, 0x02, 0x04, 0x08, 0x10, 0x20, 0x40, 0x80, 0x81, 0xFF]
    } else {
        (0..=255u8).collect()
    }
}

fn time_menu() -> Vec<Option<(u64, bool)>> {
    let max = (1u64 << 48) - 1;
    vec![None, Some((0, true)), Some((1, true)), Some((max, true)), Some((0, false)), Some((1_234_567, false)), Some((max, false))]
}

fn analog_menu() -> Vec<f64> {
    let f32max = f32::MAX as f64;
    vec![
        0.0, 1.0, -1.0, 0.5, -0.5, 7.5, -7.5, 1.999, 32767.0, 32768.0, 32767.9, -32768.0, -32769.0, -32768.9,
        2147483647.0, 2147483648.0, 2147483647.5, -2147483648.0, -2147483649.0, 1e10, -1e10, 16777217.0,
        f32max, -f32max, f32max * 2.0, -f32max * 2.0, 3.4028235677973366e38, 1e300, -1e300, f64::MAX, f64::MIN,
        5e-324, 1e-46, f64::INFINITY, f64::NEG_INFINITY, f64::NAN,
        // just beyond the f32 range, where narrowing rounds back to f32::MAX instead of to infinity
        f64::from_bits(f32max.to_bits() + 1), -f64::from_bits(f32max.to_bits() + 1), 3.4028235e38, -3.4028235e38,
    ]
}

fn build_values(tier: &str) -> Values {
    let mut cases = Vec::new();
    let flags = flag_menu(tier);
    let times = time_menu();
    for ty in [Ty::Binary, Ty::Double, Ty::BoStatus, Ty::Counter, Ty::Frozen, Ty::Analog, Ty::AoStatus, Ty::Octets] {
        let mut combos: Vec<(u8, u8)> = Vec::new();
        let sv = ty.static_vars();
        let ev = ty.event_vars();
        for s in &sv {
            combos.push((*s, ev[0]));
        }
        for e in ev.iter().skip(1) {
            combos.push((sv[0], *e));
        }
        let values: Vec<In> = match ty {
            Ty::Binary | Ty::BoStatus => vec![In::B(false), In::B(true)],
            Ty::Double => (0..4).map(In::D).collect(),
            Ty::Counter | Ty::Frozen => [0u32, 1, 0xFFFF, 0x1_0000, 0x1_2345, u32::MAX - 1, u32::MAX].iter().map(|x| In::U(*x)).collect(),
            Ty::Analog | Ty::AoStatus => analog_menu().into_iter().map(In::F).collect(),
            Ty::Octets => vec![In::Bytes(vec![0x41]), In::Bytes(vec![0; 10]), In::Bytes((0..255).map(|x| x as u8).collect())],
        };
        for (s, e) in combos {
            for v in &values {
                for &f in &flags {
                    if ty == Ty::Octets && f != 0x01 {
                        continue;
                    }
                    for t in &times {
                        // the full flag x time product only with the first value of each kind
                        if tier != "quick" && f != 0x01 && t.is_some() && *t != Some((1, true)) {
                            continue;
                        }
                        if tier == "quick" && f != 0x01 && f != 0x81 && t.is_some() && *t != Some((1_234_567, false)) {
                            continue;
                        }
                        for index in [0u16, 65535] {
                            if index == 65535 && !(f == 0x01 && t.is_none()) {
                                continue;
                            }
                            cases.push(Case { ty, s_var: s, e_var: e, value: v.clone(), flags: f, time: *t, index });
                        }
                    }
                }
            }
        }
    }
    Values { name: format!("values-{tier}"), cases }
}

impl CaseSpace for Values {
    fn name(&self) -> String {
        self.name.clone()
    }
    fn total(&self) -> usize {
        self.cases.len()
    }
    fn run(&self, index: usize, transcript: bool) -> RunResult {
        run_case(&self.cases[index], transcript)
    }
}

// ---------------------------------------------------------------------------------------
// index sets: nothing is shifted to another index or given another point's flags
// ---------------------------------------------------------------------------------------

struct IndexSets;

/// the last set is answered in several fragments (transmit size 249 for it): a run of consecutive
/// indices is cut wherever a fragment is full
const SETS: [&[u16]; 6] = [&[0], &[65535], &[0, 1, 2, 3, 4, 5, 6, 7, 8, 9], &[0, 2, 3, 7, 65535], &[254, 255, 256, 257], &[0, 1, 2, 3, 4, 5, 6, 7, 8, 9, 10, 11, 12, 13, 14, 15, 16, 17, 18, 19, 20, 21, 22, 23, 24, 25, 26, 27, 28, 29, 30, 31, 32, 33, 34, 35, 36, 37, 38, 39, 40, 41, 42, 43, 44, 45, 46, 47, 48, 49, 50, 51, 52, 53, 54, 55, 56, 57, 58, 59]];

impl CaseSpace for IndexSets {
    fn name(&self) -> String {
        "index-sets".to_string()
    }
    fn total(&self) -> usize {
        7 * SETS.len() * 2
    }
    fn run(&self, index: usize, transcript: bool) -> RunResult {
        let mut res = RunResult::default();
        let tys = [Ty::Binary, Ty::Double, Ty::BoStatus, Ty::Counter, Ty::Frozen, Ty::Analog, Ty::AoStatus];
        let ty = tys[index % 7];
        let set = SETS[(index / 7) % SETS.len()];
        let s_var = if (index / (7 * SETS.len())) % 2 == 0 { ty.static_vars()[0] } else { *ty.static_vars().last().unwrap() };
        res.obs = index as u64 + 424242;
        let cfg = OCfg { event_buf: [0; 8], sol_tx: if set.len() > 10 { 249 } else { 2048 }, ..Default::default() };
        let mut sim = OSim::new(&cfg, 1);
        let mut cases = Vec::new();
        for (n, &i) in set.iter().enumerate() {
            let flags = if n % 3 == 1 { 0x05 } else { 0x01 };
            let value = match ty {
                Ty::Binary | Ty::BoStatus => In::B(n % 2 == 1),
                Ty::Double => In::D((n % 4) as u8),
                Ty::Counter | Ty::Frozen => In::U(100 + n as u32),
                _ => In::F(1000.0 + n as f64),
            };
            let c = Case { ty, s_var, e_var: ty.event_vars()[0], value, flags, time: Some((5, true)), index: i };
            sim.db(|db| {
                add_point(db, &c);
                update_point(db, &c)
            });
            cases.push(c);
        }
        sim.take_out();
        sim.send(&app::request(1, fc::READ, &app::hdr_all(60, 1)));
        res.transitions += 1;
        let mut all: Vec<Meas> = Vec::new();
        let mut handler: Vec<HVal> = Vec::new();
        for _ in 0..6 {
            let out = sim.take_out();
            let mut con = None;
            for t in out {
                if let Some(f) = t.frag() {
                    if transcript {
                        res.transcript.push(format!("<- {}", app::hex(f)));
                    }
                    if let Some(r) = app::Resp::parse(f) {
                        if let Ok(hs) = r.headers() {
                            if let Ok(ms) = decode_measurements(&hs) {
                                all.extend(ms);
                            }
                        }
                        if f[0] & app::CON != 0 {
                            con = Some(f[0] & 0x0F);
                        }
                    }
                    if let Some(v) = extract(f) {
                        handler.extend(v);
                    }
                }
            }
            match con {
                Some(s) => sim.send(&app::confirm(s, false)),
                None => break,
            }
        }
        if let Some(f) = sim.failure() {
            res.violation = Some(Violation::new("C10.X0", f.clone(), f));
            return res;
        }
        let mine: Vec<&Meas> = all.iter().filter(|m| m.kind == ty.kind() && !m.is_event).collect();
        if mine.len() != cases.len() || handler.len() != mine.len() {
            res.violation = Some(Violation::new(
                "C10.N2",
                "index-set-not-reported-completely",
                format!("{ty:?} {set:?}: {} objects on the wire, {} at the handler, {} points", mine.len(), handler.len(), cases.len()),
            ));
            return res;
        }
        let mut sorted = cases.clone();
        sorted.sort_by_key(|c| c.index);
        for ((m, h), c) in mine.iter().zip(handler.iter()).zip(sorted.iter()) {
            if let Err((k, d)) = check_wire(c, m) {
                res.violation = Some(Violation::new("C10.E2", format!("{k}:g{}v{}", m.group, m.var), format!("index set {set:?}: {d}")));
                return res;
            }
            if let Err((k, d)) = check_handler(c, m, h) {
                res.violation = Some(Violation::new("C10.H2", format!("{k}:g{}v{}", m.group, m.var), format!("index set {set:?}: {d}")));
                return res;
            }
        }
        res.model_states.push(index as u64);
        res.nontrivial = true;
        res
    }
}

// ---------------------------------------------------------------------------------------
// update_flags: one point of every type at the same index, the flags of one type changed
// ---------------------------------------------------------------------------------------

/// Every type has a point at index 4 with its own value. `update_flags` for one type (7) with
/// every flag octet of the menu and time {none, synchronized}: afterwards that type's point is
/// reported once as an event and once as a static object with the new flags, the new time and
/// the *old* value; the points of the six other types are reported with what they had, and no
/// event exists for them.
struct FlagUpdates {
    flags: Vec<u8>,
}

const FU_TYPES: [Ty; 7] = [Ty::Binary, Ty::Double, Ty::BoStatus, Ty::Counter, Ty::Frozen, Ty::Analog, Ty::AoStatus];

fn fu_case(ty: Ty) -> Case {
    let (value, s_var, e_var) = match ty {
        Ty::Binary => (In::B(true), 2, 2),
        Ty::BoStatus => (In::B(true), 2, 2),
        Ty::Double => (In::D(2), 2, 2),
        Ty::Counter => (In::U(1111), 1, 5),
        Ty::Frozen => (In::U(2222), 1, 5),
        Ty::Analog => (In::F(3333.0), 1, 3),
        _ => (In::F(4444.0), 1, 3),
    };
    let flags = match ty {
        Ty::Binary | Ty::BoStatus => 0x81,
        Ty::Double => 0x81,
        _ => 0x01,
    };
    Case { ty, s_var, e_var, value, flags, time: Some((5, true)), index: 4 }
}

impl CaseSpace for FlagUpdates {
    fn name(&self) -> String {
        "flag-updates".to_string()
    }
    fn total(&self) -> usize {
        7 * self.flags.len() * 2
    }
    fn run(&self, index: usize, transcript: bool) -> RunResult {
        let mut res = RunResult::default();
        let ty = FU_TYPES[index % 7];
        let new_flags = self.flags[(index / 7) % self.flags.len()];
        let new_time = if index / (7 * self.flags.len()) == 0 { None } else { Some((777u64, true)) };
        res.obs = index as u64 + 515151;
        let cfg = OCfg { event_buf: [5; 8], ..Default::default() };
        let mut sim = OSim::new(&cfg, 1);
        let mut cases: Vec<Case> = FU_TYPES.iter().map(|t| fu_case(*t)).collect();
        for c in &cases {
            sim.db(|db| {
                add_point(db, c);
                update_point(db, c)
            });
        }
        // read the events of the initial values away
        let mut read_all = |sim: &mut OSim, res: &mut RunResult, seq: u8| -> Vec<Meas> {
            sim.take_out();
            sim.send(&app::request(seq, fc::READ, &app::class_headers(true, true, true, true)));
            let mut all = Vec::new();
            for _ in 0..6 {
                let out = sim.take_out();
                let mut con = None;
                for t in out {
                    if let Some(f) = t.frag() {
                        if transcript {
                            res.transcript.push(format!("<- {}", app::hex(f)));
                        }
                        if let Some(r) = app::Resp::parse(f) {
                            if let Ok(hs) = r.headers() {
                                if let Ok(ms) = decode_measurements(&hs) {
                                    all.extend(ms);
                                }
                            }
                            if f[0] & app::CON != 0 {
                                con = Some(f[0] & 0x0F);
                            }
                        }
                    }
                }
                match con {
                    Some(s) => sim.send(&app::confirm(s, false)),
                    None => break,
                }
            }
            all
        };
        let first = read_all(&mut sim, &mut res, 1);
        let kind = match ty {
            Ty::Binary => UpdateFlagsType::BinaryInput,
            Ty::Double => UpdateFlagsType::DoubleBitBinaryInput,
            Ty::BoStatus => UpdateFlagsType::BinaryOutputStatus,
            Ty::Counter => UpdateFlagsType::Counter,
            Ty::Frozen => UpdateFlagsType::FrozenCounter,
            Ty::Analog => UpdateFlagsType::AnalogInput,
            _ => UpdateFlagsType::AnalogOutputStatus,
        };
        let info = sim.db(|db| db.update_flags(4, kind, Flags::new(new_flags), mk_time(new_time), UpdateOptions::new(true, EventMode::Force)));
        if transcript {
            res.transcript.push(format!("update_flags(4, {ty:?}, {new_flags:02X}, {new_time:?}) = {info:?}"));
        }
        let second = read_all(&mut sim, &mut res, 2);
        res.transitions += 2;
        if let Some(f) = sim.failure() {
            res.violation = Some(Violation::new("C10.X0", f.clone(), f));
            return res;
        }
        if first.iter().filter(|m| m.is_event).count() != 7 || first.iter().filter(|m| !m.is_event).count() != 7 {
            res.violation = Some(Violation::new("C10.N3", "initial-points-not-all-reported", format!("{} objects", first.len())));
            return res;
        }
        // the reference: the named type's point has the new flags and time, its value as before
        for c in cases.iter_mut() {
            if c.ty == ty {
                // the state bits of the flag octet are the value of the single/double-bit types
                let sm = c.ty.state_mask();
                c.flags = (new_flags & !sm) | (c.flags & sm);
                c.time = new_time;
            }
        }
        for c in &cases {
            let evs: Vec<&Meas> = second.iter().filter(|m| m.kind == c.ty.kind() && m.is_event).collect();
            let sts: Vec<&Meas> = second.iter().filter(|m| m.kind == c.ty.kind() && !m.is_event).collect();
            let want_ev = if c.ty == ty { 1 } else { 0 };
            if evs.len() != want_ev || sts.len() != 1 {
                res.violation = Some(Violation::new(
                    "C10.F1",
                    format!("flag-update-reported-for-the-wrong-point:{:?}", c.ty),
                    format!("update_flags({ty:?}): {:?} has {} events (expected {want_ev}) and {} static objects", c.ty, evs.len(), sts.len()),
                ));
                return res;
            }
            for m in evs.iter().chain(sts.iter()) {
                // an event object without time of its own cannot show the time; static objects carry none
                if let Err((k, d)) = check_wire(c, m) {
                    res.violation = Some(Violation::new(
                        "C10.F2",
                        format!("{k}:g{}v{}", m.group, m.var),
                        format!("update_flags({ty:?}, {new_flags:02X}, {new_time:?}), point {:?}: {d}", c.ty),
                    ));
                    return res;
                }
            }
        }
        res.model_states.push(index as u64);
        res.nontrivial = true;
        res
    }
}

// ---------------------------------------------------------------------------------------
// octet strings of different lengths next to each other
// ---------------------------------------------------------------------------------------

/// Three octet-string points (indices 1, 2, 3) updated in index order with lengths drawn from
/// {1, 2, 3, 5} (all 64 triples): the event and the static objects reported for them carry exactly
/// the bytes written, under headers whose variation is each object's own length.
struct OctetRuns;

const OR_LENS: [usize; 4] = [1, 2, 3, 5];

impl CaseSpace for OctetRuns {
    fn name(&self) -> String {
        "octet-strings-of-different-lengths".to_string()
    }
    fn total(&self) -> usize {
        64
    }
    fn run(&self, index: usize, transcript: bool) -> RunResult {
        let mut res = RunResult::default();
        res.obs = index as u64 + 616161;
        let lens = [OR_LENS[index % 4], OR_LENS[(index / 4) % 4], OR_LENS[index / 16]];
        let cfg = OCfg { event_buf: [5; 8], class_zero_octet_strings: true, ..Default::default() };
        let mut sim = OSim::new(&cfg, 1);
        let mut want: Vec<(u32, Vec<u8>)> = Vec::new();
        for (k, l) in lens.iter().enumerate() {
            let i = k as u16 + 1;
            let bytes: Vec<u8> = (0..*l).map(|b| 0xA0 + 16 * k as u8 + b as u8).collect();
            sim.db(|db| {
                db.add(i, Some(EventClass::Class1), OctetStringConfig);
                db.update2(i, &OctetString::new(&bytes).unwrap(), UpdateOptions::detect_event())
            });
            want.push((i as u32, bytes));
        }
        sim.take_out();
        sim.send(&app::request(1, fc::READ, &app::class_headers(true, true, true, true)));
        res.transitions += 1;
        let mut all: Vec<Meas> = Vec::new();
        for _ in 0..4 {
            let out = sim.take_out();
            let mut con = None;
            for t in out {
                if let Some(f) = t.frag() {
                    if transcript {
                        res.transcript.push(format!("<- {}", app::hex(f)));
                    }
                    let Some(r) = app::Resp::parse(f) else { continue };
                    match r.headers().map_err(|e| format!("{e:?}")).and_then(|h| decode_measurements(&h)) {
                        Ok(ms) => all.extend(ms),
                        Err(e) => {
                            res.violation = Some(Violation::new("C10.W0", "objects-not-decodable", format!("lengths {lens:?}: {e}")));
                            return res;
                        }
                    }
                    if f[0] & app::CON != 0 {
                        con = Some(f[0] & 0x0F);
                    }
                }
            }
            match con {
                Some(s) => sim.send(&app::confirm(s, false)),
                None => break,
            }
        }
        if let Some(f) = sim.failure() {
            res.violation = Some(Violation::new("C10.X0", f.clone(), f));
            return res;
        }
        for is_event in [true, false] {
            let got: Vec<(u32, Vec<u8>)> = all
                .iter()
                .filter(|m| m.kind == Kind::OctetString && m.is_event == is_event)
                .filter_map(|m| if let Val::Bytes(b) = &m.val { Some((m.index, b.clone())) } else { None })
                .collect();
            if got != want {
                res.violation = Some(Violation::new(
                    "C10.O1",
                    format!("octet-strings-not-reported-as-written:{}", if is_event { "events" } else { "static" }),
                    format!("lengths {lens:?}: reported {got:?}, written {want:?}"),
                ));
                return res;
            }
        }
        res.nontrivial = true;
        res.model_states.push(index as u64);
        res
    }
}

// ---------------------------------------------------------------------------------------
// common time of occurrence: all orders of <= 3 events
// ---------------------------------------------------------------------------------------

/// `id`: the property whose clause names the violations carry (C10, and C09 which runs the same
/// product: what the outstation encodes, the master's parser decodes to the same objects)
pub struct Cto {
    pub id: &'static str,
}

const DIFFS: [i64; 6] = [0, 1, 65535, 65536, -1, -70000];

impl CaseSpace for Cto {
    fn name(&self) -> String {
        "common-time-of-occurrence".to_string()
    }
    fn total(&self) -> usize {
        2 * DIFFS.len() * DIFFS.len() * 8
    }
    fn run(&self, index: usize, transcript: bool) -> RunResult {
        let mut res = RunResult::default();
        res.obs = index as u64 + 515151;
        let ty = if index % 2 == 0 { Ty::Binary } else { Ty::Double };
        let d1 = DIFFS[(index / 2) % DIFFS.len()];
        let d2 = DIFFS[(index / 2 / DIFFS.len()) % DIFFS.len()];
        let syncs = (index / 2 / DIFFS.len() / DIFFS.len()) % 8;
        let t0: i64 = 1_000_000;
        let times = [t0, t0 + d1, t0 + d1 + d2];
        let cfg = OCfg { event_buf: [10; 8], ..Default::default() };
        let mut sim = OSim::new(&cfg, 1);
        let mut cases = Vec::new();
        for k in 0..3usize {
            let value = match ty {
                Ty::Binary => In::B(k % 2 == 0),
                _ => In::D((1 + k % 2) as u8),
            };
            let c = Case {
                ty,
                s_var: 2,
                e_var: 3,
                value,
                flags: 0x01,
                time: Some((times[k] as u64, (syncs >> k) & 1 == 1)),
                index: 4,
            };
            if k == 0 {
                sim.db(|db| add_point(db, &c));
            }
            sim.db(|db| update_point(db, &c));
            cases.push(c);
        }
        sim.take_out();
        sim.send(&app::request(1, fc::READ, &app::hdr_all(60, 2)));
        res.transitions += 1;
        let mut evs: Vec<Meas> = Vec::new();
        let mut hv: Vec<HVal> = Vec::new();
        for t in sim.take_out() {
            if let Some(f) = t.frag() {
                if transcript {
                    res.transcript.push(format!("<- {}", app::hex(f)));
                }
                if let Some(r) = app::Resp::parse(f) {
                    match r.headers().map_err(|e| format!("{e:?}")).and_then(|h| decode_measurements(&h)) {
                        Ok(ms) => evs.extend(ms.into_iter().filter(|m| m.is_event)),
                        Err(e) => {
                            res.violation = Some(Violation::new(&format!("{}.W0", self.id), "objects-not-decodable", e));
                            return res;
                        }
                    }
                }
                if let Some(v) = extract(f) {
                    hv.extend(v);
                }
            }
        }
        if evs.len() != 3 || hv.len() != 3 {
            res.violation = Some(Violation::new(&format!("{}.N3", self.id), "cto-events-not-all-reported", format!("{} on the wire, {} at the handler", evs.len(), hv.len())));
            return res;
        }
        for ((m, h), c) in evs.iter().zip(hv.iter()).zip(cases.iter()) {
            if let Err((k, d)) = check_wire(c, m) {
                res.violation = Some(Violation::new(&format!("{}.T1", self.id), format!("{k}:g{}v{}", m.group, m.var), format!("time differences {d1},{d2} sync bits {syncs:03b}: {d}")));
                return res;
            }
            if let Err((k, d)) = check_handler(c, m, h) {
                res.violation = Some(Violation::new(&format!("{}.T2", self.id), format!("{k}:g{}v{}", m.group, m.var), format!("time differences {d1},{d2} sync bits {syncs:03b}: {d}")));
                return res;
            }
        }
        res.model_states.push(index as u64 / 2);
        res.nontrivial = true;
        res
    }
}

// ---------------------------------------------------------------------------------------
// a point updated while the response that reports it is under way
// ---------------------------------------------------------------------------------------

/// A packed-format point (g1v1 / g3v1 / g10v1) lies in the second fragment of a READ answer and
/// is updated between the fragments so that only its flags change between plainly ONLINE and
/// not.  What arrives is one of the two measurements the point really had -- value *and*
/// flags -- never the value of one with the flags (or the implied ONLINE) of the other.
struct Racing;

impl CaseSpace for Racing {
    fn name(&self) -> String {
        "update-between-fragments".into()
    }
    fn total(&self) -> usize {
        3 * 2 * 2 * 2
    }
    fn run(&self, index: usize, transcript: bool) -> RunResult {
        let mut res = RunResult::default();
        let ty = [Ty::Binary, Ty::Double, Ty::BoStatus][index % 3];
        let i = index / 3;
        let to_online = i % 2 == 0; // selected with bad flags, then updated to plainly ONLINE
        let value_changes = (i / 2) % 2 == 1;
        let requested = (i / 4) % 2 == 1; // request the packed variation explicitly
        res.obs = index as u64 + 606060;
        let cfg = OCfg { sol_tx: 249, event_buf: [0; 8], ..Default::default() };
        let mut sim = OSim::new(&cfg, 1);
        let (group, packed_var) = match ty {
            Ty::Binary => (1u8, 1u8),
            Ty::Double => (3, 1),
            _ => (10, 1),
        };
        let set = |db: &mut Database, on: bool, flags: u8| {
            let fl = Flags::new(flags);
            let t = Time::Synchronized(Timestamp::new(5));
            let o = UpdateOptions::no_event();
            match ty {
                Ty::Binary => db.update(7, &BinaryInput::new(on, fl, t), o),
                Ty::Double => db.update(7, &DoubleBitBinaryInput::new(if on { DoubleBit::DeterminedOn } else { DoubleBit::DeterminedOff }, fl, t), o),
                _ => db.update(7, &BinaryOutputStatus::new(on, fl, t), o),
            }
        };
        let (f0, f1) = if to_online { (0x05u8, 0x01u8) } else { (0x01, 0x05) };
        sim.db(|db| {
            for k in 0..60u16 {
                db.add(k, None, AnalogInputConfig::default());
                db.update(k, &AnalogInput::new(k as f64, Flags::ONLINE, Time::Synchronized(Timestamp::new(5))), UpdateOptions::no_event());
            }
            match ty {
                Ty::Binary => db.add(7, None, BinaryInputConfig::new(StaticBinaryInputVariation::Group1Var1, EventBinaryInputVariation::Group2Var1)),
                Ty::Double => db.add(7, None, DoubleBitBinaryInputConfig::new(StaticDoubleBitBinaryInputVariation::Group3Var1, EventDoubleBitBinaryInputVariation::Group4Var1)),
                _ => db.add(7, None, BinaryOutputStatusConfig::new(StaticBinaryOutputStatusVariation::Group10Var1, EventBinaryOutputStatusVariation::Group11Var1)),
            };
            set(db, true, f0);
        });
        sim.take_out();
        let mut objs = app::hdr_all(30, 0);
        objs.extend(app::hdr_all(group, if requested { packed_var } else { 0 }));
        sim.send(&app::request(1, fc::READ, &objs));
        let first: Vec<app::Resp> = sim.take_out().iter().filter_map(|t| t.frag()).filter_map(app::Resp::parse).collect();
        let Some(r1) = first.last().cloned() else {
            res.violation = Some(Violation::new("C10.R0", "read-not-answered", String::new()));
            return res;
        };
        if r1.fin() {
            // the point was in the first fragment already: nothing to race with
            return res;
        }
        let v1 = !value_changes;
        sim.db(|db| set(db, v1, f1));
        sim.send(&app::confirm(r1.seq(), false));
        let mut frags = vec![r1];
        for _ in 0..6 {
            let rs: Vec<app::Resp> = sim.take_out().iter().filter_map(|t| t.frag()).filter_map(app::Resp::parse).collect();
            let Some(r) = rs.last().cloned() else { break };
            let fin = r.fin();
            let seq = r.seq();
            frags.push(r);
            if fin {
                break;
            }
            sim.send(&app::confirm(seq, false));
        }
        res.transitions += frags.len();
        let mut got: Vec<Meas> = Vec::new();
        for r in &frags {
            if let Ok(h) = app::walk(&r.objects, false) {
                if let Ok(ms) = decode_measurements(&h) {
                    got.extend(ms.into_iter().filter(|m| m.group == group));
                }
            }
        }
        if transcript {
            res.transcript.push(format!("{ty:?}: selected (true, {f0:#04x}), updated to ({v1}, {f1:#04x}) between the fragments; requested packed variation: {requested}"));
            res.transcript.push(format!("reported: {got:?}"));
        }
        let key = format!("{ty:?}");
        if got.len() != 1 {
            res.violation = Some(Violation::new("C10.R1", key, format!("the point was reported {} times", got.len())));
            return res;
        }
        let m = &got[0];
        let val = match &m.val {
            Val::Bool(b) => *b,
            Val::Dbit(d) => *d == 2,
            _ => false,
        };
        // a packed object carries no flags: it says "plainly ONLINE"
        let flags = m.flags.map(|f| f & 0x3F).unwrap_or(0x01);
        let is = |v: bool, f: u8| val == v && flags == f;
        if !(is(true, f0) || is(v1, f1)) {
            res.violation = Some(Violation::new(
                "C10.R2",
                key,
                format!(
                    "selected (true, flags {f0:#04x}), updated to ({v1}, flags {f1:#04x}) between the fragments: the master is told ({val}, flags {flags:#04x}) as g{}v{} -- a measurement the point never had",
                    m.group, m.var
                ),
            ));
            return res;
        }
        res.nontrivial = true;
        res.model_states.push(index as u64);
        res
    }
}

pub fn replay(name: &str, path: &[usize]) -> Option<RunResult> {
    if Racing.name() == name {
        return Some(Racing.run(path[0], true));
    }
    for tier in ["quick", "thorough"] {
        let v = build_values(tier);
        if v.name == name {
            return Some(v.run(path[0], true));
        }
    }
    if IndexSets.name() == name {
        return Some(IndexSets.run(path[0], true));
    }
    if name == OctetRuns.name() {
        return Some(OctetRuns.run(path[0], true));
    }
    if name == "flag-updates" {
        return Some(FlagUpdates { flags: flag_menu("thorough") }.run(path[0], true));
    }
    if (super::c03x::EventVariations { id: "C10" }).name() == name {
        return Some(super::c03x::EventVariations { id: "C10" }.run(path[0], true));
    }
    if (Cto { id: "C10" }).name() == name {
        return Some((Cto { id: "C10" }).run(path[0], true));
    }
    None
}

pub fn check(tier: &str) -> i32 {
    let mut c = Check::new("C10", tier);
    c.cases(&build_values(tier));
    c.cases(&IndexSets);
    c.cases(&FlagUpdates { flags: flag_menu("thorough") });
    c.cases(&OctetRuns);
    c.cases(&Racing);
    c.cases(&Cto { id: "C10" });
    c.cases(&super::c03x::EventVariations { id: "C10" });
    c.finish(
        "exploration",
        "finite product: 8 point types x every configured static variation and every event variation x boundary values (40 analog values incl. i16/i32/f32 limits +-1, halves, infinities, NaN, subnormals; 7 counter values incl. 0xFFFF/0x10000/u32::MAX; all binary / double-bit states) x flag octets (11 quick, all 256 thorough) x 7 timestamps (none, 0, 1, 2^48-1, synchronized and unsynchronized) x index {0, 65535}; index sets (single, dense, sparse incl. 65535, around 255/256); all orders of 3 events under a common-time-of-occurrence header with time differences {0, 1, 65535, 65536, -1, -70000} and mixed synchronisation; every configurable event variation offered by a class poll as recorded, directly and after an unconfirmed READ naming another variation (the product C03 also runs); update_flags for each of the 7 types x all 256 flag octets x time {none, synchronized} with a point of every type at the same index (only the named type's point changes, its value kept). Each case: real Database::update -> real response writers (through the real OutstationTask) -> bytes -> engine decoder and the library's extract_measurements into a recording handler, both compared with what the variation can carry; non-trivial = the point was reported; distinct = distinct case",
        &[
            "2^48 timestamps and the f64 domain are covered by boundary menus, not enumerated",
            "an infinite analog value through an f32 variation may arrive as infinity or saturated with OVER_RANGE",
            "a NaN through an integer variation must carry OVER_RANGE (its value is unspecified)",
        ],
        serde_json::json!({}),
    )
}
