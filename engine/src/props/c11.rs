//! C11 — a READ is answered with a complete, consistent snapshot as an orderly series.
//!
//! SM exploration of the real outstation task; oracle = mirrored snapshot database plus the
//! series grammar (DESIGN §5 C11).

use std::collections::BTreeMap;

use dnp3::app::measurement::*;
use dnp3::outstation::database::*;

use super::common::{self, collect};
use crate::explore::{Check, Hasher, RunResult, Scenario, Violation};
use crate::osim::{OCfg, OSim};
use crate::wire::app::{self, fc};
use crate::wire::objects::{decode_measurements, kind_of, Kind, Meas, Val};

const TO: u64 = 5000;

#[derive(Clone, Debug, PartialEq)]
struct PointVal {
    /// numeric value (bool/double-bit/counters/analogs), or NaN for octet strings
    num: f64,
    bytes: Vec<u8>,
    flags: u8,
    /// configured default static variation
    default_var: u8,
}

type Mirror = BTreeMap<(Kind, u32), PointVal>;

#[derive(Copy, Clone, Debug, PartialEq, Eq)]
enum Db {
    /// five packed binaries
    D1,
    /// eight types, sparse indices
    D2,
    /// one hundred analogs (three fragments at 249)
    D3,
    /// ten binaries, two of them with flags other than ONLINE
    D4,
    /// sixty analogs and six binaries: read analogs first, so that the packed binaries land
    /// in a later fragment (at 249) and their flags can change while the series is under way
    D5,
    /// three points (indices 0, 1, 2) of each of the seven measurement types
    D6,
}

fn static_group(k: Kind) -> u8 {
    match k {
        Kind::Binary => 1,
        Kind::DoubleBit => 3,
        Kind::BinaryOutputStatus => 10,
        Kind::Counter => 20,
        Kind::FrozenCounter => 21,
        Kind::Analog => 30,
        Kind::AnalogOutputStatus => 40,
        Kind::OctetString => 110,
        Kind::FrozenAnalog => 31,
    }
}

const NO_EVENT: fn() -> UpdateOptions = UpdateOptions::no_event;

fn t0() -> Time {
    common::ts(0)
}

/// set a point in the outstation database and in the mirror
fn set_point(sim: &mut OSim, m: &mut Mirror, kind: Kind, index: u16, num: f64, flags: u8, opts: UpdateOptions) -> UpdateInfo {
    let fl = Flags::new(flags);
    let info = sim.db_quiet(|db| match kind {
        Kind::Binary => db.update2(index, &BinaryInput::new(num != 0.0, fl, t0()), opts),
        Kind::DoubleBit => {
            let v = match num as u8 {
                0 => DoubleBit::Intermediate,
                1 => DoubleBit::DeterminedOff,
                2 => DoubleBit::DeterminedOn,
                _ => DoubleBit::Indeterminate,
            };
            db.update2(index, &DoubleBitBinaryInput::new(v, fl, t0()), opts)
        }
        Kind::BinaryOutputStatus => db.update2(index, &BinaryOutputStatus::new(num != 0.0, fl, t0()), opts),
        Kind::Counter => db.update2(index, &Counter::new(num as u32, fl, t0()), opts),
        Kind::FrozenCounter => db.update2(index, &FrozenCounter::new(num as u32, fl, t0()), opts),
        Kind::Analog => db.update2(index, &AnalogInput::new(num, fl, t0()), opts),
        Kind::AnalogOutputStatus => db.update2(index, &AnalogOutputStatus::new(num, fl, t0()), opts),
        _ => UpdateInfo::NoPoint,
    });
    if let Some(p) = m.get_mut(&(kind, index as u32)) {
        p.num = num;
        p.flags = flags;
    }
    info
}

fn build(db_kind: Db, sim: &mut OSim) -> Mirror {
    let mut m = Mirror::new();
    let mut add = |sim: &mut OSim, m: &mut Mirror, kind: Kind, index: u16, class: Option<EventClass>| {
        let default_var = sim.db_quiet(|db| {
            match kind {
                Kind::Binary => db.add(index, class, BinaryInputConfig::default()),
                Kind::DoubleBit => db.add(index, class, DoubleBitBinaryInputConfig::default()),
                Kind::BinaryOutputStatus => db.add(index, class, BinaryOutputStatusConfig::default()),
                Kind::Counter => db.add(index, class, CounterConfig::default()),
                Kind::FrozenCounter => db.add(index, class, FrozenCounterConfig::default()),
                Kind::Analog => db.add(index, class, AnalogInputConfig::default()),
                Kind::AnalogOutputStatus => db.add(index, class, AnalogOutputStatusConfig::default()),
                Kind::OctetString => db.add(index, class, OctetStringConfig),
                Kind::FrozenAnalog => false,
            };
            1u8
        });
        // library defaults: g1v1 g3v1 g10v1 g20v1 g21v1 g30v1 g40v1
        m.insert(
            (kind, index as u32),
            PointVal { num: 0.0, bytes: vec![0], flags: 0x02, default_var },
        );
    };
    match db_kind {
        Db::D1 => {
            for i in 0..5 {
                add(sim, &mut m, Kind::Binary, i, None);
            }
        }
        Db::D2 => {
            for i in [0u16, 2, 3, 7] {
                add(sim, &mut m, Kind::Binary, i, if i == 2 { Some(EventClass::Class1) } else { None });
            }
            for i in [1u16, 5] {
                add(sim, &mut m, Kind::DoubleBit, i, None);
            }
            for i in [0u16, 4] {
                add(sim, &mut m, Kind::BinaryOutputStatus, i, None);
            }
            for i in [0u16, 10] {
                add(sim, &mut m, Kind::Counter, i, None);
            }
            add(sim, &mut m, Kind::FrozenCounter, 2, None);
            for i in [0u16, 1, 200, 300] {
                add(sim, &mut m, Kind::Analog, i, None);
            }
            add(sim, &mut m, Kind::AnalogOutputStatus, 3, None);
        }
        Db::D3 => {
            for i in 0..100 {
                add(sim, &mut m, Kind::Analog, i, None);
            }
        }
        Db::D4 => {
            for i in 0..10 {
                add(sim, &mut m, Kind::Binary, i, None);
            }
        }
        Db::D5 => {
            for i in 0..60 {
                add(sim, &mut m, Kind::Analog, i, None);
            }
            for i in 0..6 {
                add(sim, &mut m, Kind::Binary, i, None);
            }
        }
        Db::D6 => {
            for k in [Kind::Binary, Kind::DoubleBit, Kind::BinaryOutputStatus, Kind::Counter, Kind::FrozenCounter, Kind::Analog, Kind::AnalogOutputStatus] {
                for i in 0..3 {
                    add(sim, &mut m, k, i, None);
                }
            }
        }
    }
    // initial values (newly added points carry the RESTART flag until updated)
    let keys: Vec<(Kind, u32)> = m.keys().cloned().collect();
    for (n, (k, i)) in keys.iter().enumerate() {
        let num = match k {
            Kind::Binary | Kind::BinaryOutputStatus => (n % 2) as f64,
            Kind::DoubleBit => (1 + n % 2) as f64,
            _ => (10 + n * 3) as f64,
        };
        let flags = if (db_kind == Db::D4 && (*i == 3 || *i == 4)) || (db_kind == Db::D5 && *k == Kind::Binary && *i == 3) { 0x05 } else { 0x01 };
        set_point(sim, &mut m, *k, *i as u16, num, flags, NO_EVENT());
    }
    sim.pump();
    m
}

#[derive(Clone, Debug, PartialEq)]
enum Hdr {
    Class0,
    Class123,
    /// all objects of (group, var)
    All(u8, u8),
    Range8(u8, u8, u8, u8),
    Range16(u8, u8, u16, u16),
}

impl Hdr {
    fn bytes(&self) -> Vec<u8> {
        match self {
            Hdr::Class0 => app::hdr_all(60, 1),
            Hdr::Class123 => app::class_headers(true, true, true, false),
            Hdr::All(g, v) => app::hdr_all(*g, *v),
            Hdr::Range8(g, v, a, b) => app::hdr_range8(*g, *v, *a, *b),
            Hdr::Range16(g, v, a, b) => app::hdr_range16(*g, *v, *a, *b),
        }
    }
    /// groups of points this header selects from the snapshot (one group per type; the types of a
    /// class-0 header may be reported in any order), and the requested variation (0 = default)
    fn select(&self, snap: &Mirror) -> (Vec<Vec<(Kind, u32)>>, u8) {
        let by_kind = |k: Kind, lo: u32, hi: u32| -> Vec<(Kind, u32)> {
            snap.keys().filter(|(kk, i)| *kk == k && *i >= lo && *i <= hi).cloned().collect()
        };
        match self {
            Hdr::Class0 => {
                let mut v = Vec::new();
                for k in [
                    Kind::Binary,
                    Kind::DoubleBit,
                    Kind::BinaryOutputStatus,
                    Kind::Counter,
                    Kind::FrozenCounter,
                    Kind::Analog,
                    Kind::AnalogOutputStatus,
                ] {
                    let g = by_kind(k, 0, u32::MAX);
                    if !g.is_empty() {
                        v.push(g);
                    }
                }
                (v, 0)
            }
            Hdr::Class123 => (vec![], 0),
            Hdr::All(g, var) => {
                let k = kind_of(*g).map(|x| x.0).unwrap_or(Kind::Binary);
                (vec![by_kind(k, 0, u32::MAX)], *var)
            }
            Hdr::Range8(g, var, a, b) => {
                let k = kind_of(*g).map(|x| x.0).unwrap_or(Kind::Binary);
                (vec![by_kind(k, *a as u32, *b as u32)], *var)
            }
            Hdr::Range16(g, var, a, b) => {
                let k = kind_of(*g).map(|x| x.0).unwrap_or(Kind::Binary);
                (vec![by_kind(k, *a as u32, *b as u32)], *var)
            }
        }
    }
}

fn reads(db: Db) -> Vec<Vec<Hdr>> {
    if db == Db::D5 {
        return vec![vec![Hdr::All(30, 0), Hdr::All(1, 0)], vec![Hdr::All(30, 0), Hdr::All(1, 1)], vec![Hdr::Class0]];
    }
    let (g, n, alt): (u8, u16, u8) = match db {
        Db::D1 => (1, 5, 2),
        Db::D2 => (30, 2, 2),
        Db::D3 => (30, 100, 2),
        Db::D4 => (1, 10, 2),
        Db::D5 | Db::D6 => unreachable!(),
    };
    let mut v = vec![
        vec![Hdr::Class0],
        vec![Hdr::Class123, Hdr::Class0],
        vec![Hdr::All(g, 0)],
        vec![Hdr::Range8(g, 0, 1, 3)],
        vec![Hdr::Range16(g, 0, n - 2, n + 5)],
        vec![Hdr::All(g, alt)],
        vec![Hdr::Range8(g, 0, 0, 1), Hdr::Range8(g, alt, 3, 4)],
        vec![Hdr::Range8(g, 0, 100, 110)],
    ];
    if db == Db::D2 {
        v.push(vec![Hdr::Range16(30, 0, 0, 300)]);
        v.push(vec![Hdr::All(1, 0), Hdr::All(20, 0), Hdr::All(3, 0)]);
    }
    v
}

#[derive(Clone, Debug, PartialEq)]
enum Ev {
    Read(usize),
    SolConfirm(bool),
    Timeout,
    Other,
    Reconnect,
    UpdIn,
    UpdOther,
    /// confirm that arrives after the confirm timeout (late)
    LateConfirm,
    /// three fifths of the confirm timeout pass
    HalfWait,
    /// a fragment whose header does not parse as a request (unknown function code): it is
    /// answered with an error indication and, like any other request, ends a series
    Garbage,
}

struct Series {
    seq0: u8,
    hdrs: Vec<Hdr>,
    snap: Mirror,
    next_seq: u8,
    /// sequence number whose confirm the outstation awaits
    awaiting: Option<u8>,
    /// a matching confirm was delivered and the next fragment is due
    confirmed: bool,
    frags: usize,
    collected: Vec<Meas>,
    saw_static: bool,
    done: bool,
    dead: bool,
    /// virtual time at which the wait for the outstanding confirm runs out
    deadline: Option<u64>,
}

pub struct C11 {
    name: String,
    db: Db,
    tx: usize,
    depth: usize,
    alphabet: Vec<Ev>,
}

fn promoted(group: u8, var: u8) -> Option<u8> {
    match (group, var) {
        (1, 1) | (3, 1) | (10, 1) => Some(2),
        _ => None,
    }
}

fn val_matches(m: &Meas, p: &PointVal) -> bool {
    match &m.val {
        Val::Bytes(b) => *b == p.bytes,
        v => v.as_f64().map(|x| x == p.num).unwrap_or(false),
    }
}

impl C11 {
    fn check_complete(&self, s: &Series) -> Option<Violation> {
        check_complete_series(s)
    }
}

/// check a completed series against the snapshot
fn check_complete_series(s: &Series) -> Option<Violation> {
    {
        let stat: Vec<&Meas> = s.collected.iter().filter(|m| !m.is_event).collect();
        let mut p = 0usize;
        for h in &s.hdrs {
            let (groups, req_var) = h.select(&s.snap);
            let mut remaining: Vec<Vec<(Kind, u32)>> = groups.into_iter().filter(|g| !g.is_empty()).collect();
            while !remaining.is_empty() {
                let Some(first) = stat.get(p) else {
                    return Some(Violation::new(
                        "C11.S1",
                        "selected-points-missing-from-series",
                        format!("header {h:?}: {} point group(s) not reported, e.g. {:?}", remaining.len(), remaining[0].first()),
                    ));
                };
                let Some(gi) = remaining.iter().position(|g| g[0].0 == first.kind) else {
                    return Some(Violation::new(
                        "C11.S1",
                        "unexpected-object-in-series",
                        format!("header {h:?}: got {:?}[{}] where one of {:?} was expected", first.kind, first.index, remaining.iter().map(|g| g[0]).collect::<Vec<_>>()),
                    ));
                };
                let g = remaining.remove(gi);
                for (k, i) in &g {
                    let Some(m) = stat.get(p) else {
                        return Some(Violation::new("C11.S1", "selected-points-missing-from-series", format!("{k:?}[{i}] not reported for {h:?}")));
                    };
                    if m.kind != *k || m.index != *i {
                        return Some(Violation::new(
                            "C11.S1",
                            "points-not-exactly-once-ascending",
                            format!("header {h:?}: expected {k:?}[{i}] got {:?}[{}]", m.kind, m.index),
                        ));
                    }
                    let pv = &s.snap[&(*k, *i)];
                    if !val_matches(m, pv) {
                        return Some(Violation::new(
                            "C11.S2",
                            "value-differs-from-snapshot",
                            format!("{k:?}[{i}] reported {:?}, snapshot value {} (g{}v{})", m.val, pv.num, m.group, m.var),
                        ));
                    }
                    match m.flags {
                        Some(f) => {
                            // state bits are folded into the flag octet of binary types
                            let mask = match k {
                                Kind::Binary | Kind::BinaryOutputStatus => 0x7F,
                                Kind::DoubleBit => 0x3F,
                                _ => 0xFF,
                            };
                            if f & mask != pv.flags & mask {
                                return Some(Violation::new(
                                    "C11.S2",
                                    "flags-differ-from-snapshot",
                                    format!("{k:?}[{i}] reported flags {f:02X}, snapshot {:02X}", pv.flags),
                                ));
                            }
                        }
                        None => {
                            if pv.flags != 0x01 && m.group != 110 && !matches!((m.group, m.var), (20, 5) | (20, 6) | (21, 9) | (21, 10) | (30, 3) | (30, 4)) {
                                return Some(Violation::new(
                                    "C11.S3",
                                    "packed-format-for-point-that-is-not-plainly-online",
                                    format!("{k:?}[{i}] flags {:02X} reported as g{}v{}", pv.flags, m.group, m.var),
                                ));
                            }
                        }
                    }
                    // variation: requested, or configured default, or its promotion
                    let want = if req_var != 0 { req_var } else { pv.default_var };
                    let ok_var = m.group == static_group(*k) && (m.var == want || promoted(m.group, want) == Some(m.var));
                    if !ok_var {
                        return Some(Violation::new(
                            "C11.S4",
                            "unexpected-variation",
                            format!("{k:?}[{i}] reported as g{}v{}, wanted variation {want}", m.group, m.var),
                        ));
                    }
                    p += 1;
                }
            }
        }
        if p != stat.len() {
            let m = stat[p];
            return Some(Violation::new(
                "C11.S1",
                "unselected-or-duplicate-object-in-series",
                format!("{:?}[{}] reported beyond what the request selects", m.kind, m.index),
            ));
        }
        None
    }
}

impl Scenario for C11 {
    fn name(&self) -> String {
        self.name.clone()
    }
    fn alphabet(&self) -> Vec<String> {
        let r = reads(self.db);
        self.alphabet
            .iter()
            .map(|e| match e {
                Ev::Read(i) => format!("Read({:?})", r[*i]),
                e => format!("{e:?}"),
            })
            .collect()
    }
    fn depth(&self) -> usize {
        self.depth
    }

    fn run(&self, path: &[usize], transcript: bool) -> RunResult {
        let mut res = RunResult::default();
        let mut obs = Hasher::default();
        let cfg = OCfg { sol_tx: self.tx, confirm_timeout_ms: TO, event_buf: [10; 8], ..Default::default() };
        let mut sim = OSim::new(&cfg, 1);
        let mut mirror = build(self.db, &mut sim);
        sim.take_out();
        sim.take_cb();
        let menu = reads(self.db);
        let mut last_seq = 0u8;
        let mut series: Option<Series> = None;
        let mut upd_n = 0u32;
        let mut completed = 0usize;
        let mut multi = 0usize;

        for &i in path {
            let ev = &self.alphabet[i];
            let mut sent: Option<Vec<u8>> = None;
            let mut new_series: Option<Series> = None;
            match ev {
                Ev::Read(k) => {
                    last_seq = (last_seq + 1) & 0x0F;
                    let mut o = Vec::new();
                    for h in &menu[*k] {
                        o.extend(h.bytes());
                    }
                    sent = Some(app::request(last_seq, fc::READ, &o));
                    if let Some(s) = &mut series {
                        s.dead = true;
                    }
                    new_series = Some(Series {
                        seq0: last_seq,
                        hdrs: menu[*k].clone(),
                        snap: mirror.clone(),
                        next_seq: last_seq,
                        awaiting: None,
                        confirmed: true,
                        frags: 0,
                        collected: Vec::new(),
                        saw_static: false,
                        done: false,
                        dead: false,
                        deadline: None,
                    });
                }
                Ev::SolConfirm(ok) => {
                    let exp = series.as_ref().and_then(|s| s.awaiting).unwrap_or(last_seq);
                    let seq = if *ok { exp } else { (exp + 1) & 0x0F };
                    sent = Some(app::confirm(seq, false));
                    if *ok {
                        if let Some(s) = &mut series {
                            if s.awaiting == Some(seq) && !s.dead {
                                s.confirmed = true;
                                s.awaiting = None;
                            }
                        }
                    }
                }
                Ev::LateConfirm => {
                    sim.advance(TO);
                    let exp = series.as_ref().and_then(|s| s.awaiting).unwrap_or(last_seq);
                    sent = Some(app::confirm(exp, false));
                    if let Some(s) = &mut series {
                        s.dead = true;
                    }
                }
                Ev::HalfWait => {
                    sim.advance(TO * 3 / 5);
                }
                Ev::Timeout => {
                    sim.advance(TO);
                    if let Some(s) = &mut series {
                        s.dead = true;
                    }
                }
                Ev::Garbage => {
                    last_seq = (last_seq + 1) & 0x0F;
                    sent = Some(app::request(last_seq, 0x70, &[]));
                    if let Some(s) = &mut series {
                        s.dead = true;
                    }
                }
                Ev::Other => {
                    last_seq = (last_seq + 1) & 0x0F;
                    sent = Some(app::request(last_seq, fc::DELAY_MEASURE, &[]));
                    if let Some(s) = &mut series {
                        s.dead = true;
                    }
                }
                Ev::Reconnect => {
                    sim.reconnect();
                    if let Some(s) = &mut series {
                        s.dead = true;
                    }
                }
                Ev::UpdIn | Ev::UpdOther => {
                    upd_n += 1;
                    let (k, idx) = match (self.db, ev) {
                        (Db::D1, Ev::UpdIn) => (Kind::Binary, 1u16),
                        (Db::D1, _) => (Kind::Binary, 4),
                        (Db::D2, Ev::UpdIn) => (Kind::Analog, 1),
                        (Db::D2, _) => (Kind::Binary, 2),
                        (Db::D3, Ev::UpdIn) => (Kind::Analog, 60),
                        (Db::D3, _) => (Kind::Analog, 0),
                        (Db::D4, Ev::UpdIn) => (Kind::Binary, 2),
                        (Db::D4, _) => (Kind::Binary, 4),
                        (Db::D5, Ev::UpdIn) => (Kind::Binary, 2),
                        (Db::D5, _) => (Kind::Binary, 3),
                        (Db::D6, _) => (Kind::Binary, 1),
                    };
                    let cur = mirror[&(k, idx as u32)].clone();
                    let num = match k {
                        Kind::Binary if self.db != Db::D5 => 1.0 - cur.num,
                        Kind::Binary => cur.num,
                        _ => cur.num + upd_n as f64,
                    };
                    // D5: the update changes the flags (ONLINE <-> ONLINE|COMM_LOST), not the value
                    let flags = if self.db == Db::D5 { cur.flags ^ 0x04 } else { cur.flags };
                    set_point(&mut sim, &mut mirror, k, idx, num, flags, UpdateOptions::detect_event());
                    sim.pump();
                }
            }
            // the confirm wait runs out at its deadline whatever else arrived in the meantime
            if let Some(s) = &mut series {
                if let Some(d) = s.deadline {
                    if s.awaiting.is_some() && sim.k.now_ms() >= d {
                        s.dead = true;
                        s.confirmed = false;
                    }
                }
            }
            if let Some(f) = &sent {
                sim.send(f);
            }
            let label = match ev {
                Ev::Read(k) => format!("Read({:?})", menu[*k]),
                e => format!("{e:?}"),
            };
            let step = collect(&mut sim, &mut res, &mut obs, &label, sent.as_deref(), transcript);
            if let Some(f) = sim.failure() {
                res.violation = Some(Violation::new("C11.X0", f.clone(), f));
                break;
            }
            if let Some(ns) = new_series {
                series = Some(ns);
            }

            // the series grammar
            let mut v: Option<Violation> = None;
            let mut other_answered = false;
            for r in step.resps() {
                if r.uns() {
                    continue;
                }
                if matches!(ev, Ev::Other | Ev::Garbage) && r.fir() && r.seq() == last_seq {
                    other_answered = true;
                    continue; // the answer to the other request
                }
                let Some(s) = &mut series else {
                    v = Some(Violation::new("C11.G0", "response-fragment-without-read", app::hex(&r.raw[..4])));
                    break;
                };
                if s.dead || s.done {
                    v = Some(Violation::new(
                        "C11.G5",
                        if s.done { "fragment-after-final-fragment" } else { "fragment-of-aborted-series" },
                        format!("{} after the series was {}", app::hex(&r.raw[..4]), if s.done { "complete" } else { "ended by a new request, timeout or disconnect" }),
                    ));
                    break;
                }
                if !s.confirmed {
                    v = Some(Violation::new(
                        "C11.G4",
                        "next-fragment-without-matching-confirm",
                        format!("{} sent while fragment {} awaits its confirm", app::hex(&r.raw[..4]), s.awaiting.unwrap_or(0)),
                    ));
                    break;
                }
                let first = s.frags == 0;
                if r.fir() != first {
                    v = Some(Violation::new("C11.G1", "fir-bit", format!("fragment #{} has FIR={}", s.frags + 1, r.fir())));
                    break;
                }
                if r.seq() != s.next_seq {
                    v = Some(Violation::new("C11.G2", "sequence-not-consecutive", format!("expected {} got {}", s.next_seq, r.seq())));
                    break;
                }
                let hs = match r.headers() {
                    Ok(h) => h,
                    Err(e) => {
                        v = Some(Violation::new("C11.G6", "fragment-not-decodable", format!("{e:?}")));
                        break;
                    }
                };
                let ms = match decode_measurements(&hs) {
                    Ok(m) => m,
                    Err(e) => {
                        v = Some(Violation::new("C11.G6", "objects-not-decodable", e));
                        break;
                    }
                };
                let has_events = ms.iter().any(|m| m.is_event);
                for m in &ms {
                    if m.is_event && s.saw_static {
                        v = Some(Violation::new("C11.G7", "event-after-static-data", format!("{:?}[{}]", m.kind, m.index)));
                    }
                    if !m.is_event {
                        s.saw_static = true;
                    }
                }
                if v.is_some() {
                    break;
                }
                if r.con() != (!r.fin() || has_events) {
                    v = Some(Violation::new(
                        "C11.G3",
                        "confirmation-request-bit",
                        format!("FIN={} events={} CON={}", r.fin(), has_events, r.con()),
                    ));
                    break;
                }
                // no request of the alphabet selects a point twice: a static point that was already
                // reported in an earlier fragment of this series is a repetition
                if let Some(m) = ms.iter().find(|m| !m.is_event && s.collected.iter().any(|c| !c.is_event && c.kind == m.kind && c.index == m.index)) {
                    v = Some(Violation::new(
                        "C11.S0",
                        "point-reported-again-in-a-later-fragment",
                        format!("{:?}[{}] appears again in fragment {} of the series", m.kind, m.index, s.frags + 1),
                    ));
                    break;
                }
                s.collected.extend(ms);
                s.frags += 1;
                s.next_seq = (s.next_seq + 1) & 0x0F;
                if r.con() {
                    s.awaiting = Some(r.seq());
                    s.confirmed = false;
                    s.deadline = Some(sim.k.now_ms() + TO);
                }
                if r.fin() {
                    s.done = true;
                    completed += 1;
                    if s.frags > 1 {
                        multi += 1;
                    }
                    // parameter errors for ranges with no point at all
                    v = self.check_complete(s);
                    if v.is_some() {
                        break;
                    }
                }
            }
            if v.is_none() && matches!(ev, Ev::Other | Ev::Garbage) && !other_answered {
                v = Some(Violation::new("C11.G10", "request-that-ends-the-series-not-answered", format!("{ev:?} with sequence {last_seq} got no response")));
            }
            if v.is_none() {
                // a READ delivered from idle must have produced its first fragment
                if let (Ev::Read(_), Some(s)) = (ev, &series) {
                    if s.frags == 0 {
                        v = Some(Violation::new("C11.G8", "read-not-answered", format!("READ seq {} got no first fragment", s.seq0)));
                    }
                }
                // after a matching confirm of a non-final fragment the next one must follow
                if let (Ev::SolConfirm(true), Some(s)) = (ev, &series) {
                    if s.confirmed && !s.done && !s.dead && s.frags > 0 {
                        v = Some(Violation::new(
                            "C11.G9",
                            "series-stalled-after-matching-confirm",
                            format!("fragment {} confirmed, FIN not yet sent, nothing followed", s.frags),
                        ));
                    }
                }
            }
            if let Some(v) = v {
                res.violation = Some(v);
                break;
            }
            let mut h = Hasher::default();
            match &series {
                None => h.add_u64(0),
                Some(s) => {
                    h.add_u64(1 + s.frags.min(4) as u64);
                    h.add_u64(s.done as u64 * 4 + s.dead as u64 * 2 + s.confirmed as u64);
                    h.add_u64((s.snap != mirror) as u64);
                }
            }
            res.model_states.push(h.0);
        }
        res.obs = obs.0;
        res.nontrivial = completed > 0 && (multi > 0 || self.tx == 2048);
        res
    }
}

fn scenarios(tier: &str) -> Vec<C11> {
    let mk = |db: Db, tx: usize, depth: usize| {
        let n = reads(db).len();
        let mut alphabet: Vec<Ev> = (0..n).map(Ev::Read).collect();
        alphabet.extend([
            Ev::SolConfirm(true),
            Ev::UpdIn,
            Ev::UpdOther,
            Ev::SolConfirm(false),
            Ev::Timeout,
            Ev::Other,
            Ev::Reconnect,
            Ev::LateConfirm,
            Ev::HalfWait,
            Ev::Garbage,
        ]);
        C11 { name: format!("{db:?}-tx{tx}-d{depth}"), db, tx, depth, alphabet }
    };
    let timing = |db: Db, tx: usize, depth: usize| {
        let alphabet = vec![Ev::Read(0), Ev::SolConfirm(true), Ev::SolConfirm(false), Ev::HalfWait, Ev::Timeout, Ev::UpdIn, Ev::Garbage];
        C11 { name: format!("{db:?}-tx{tx}-timing-d{depth}"), db, tx, depth, alphabet }
    };
    let mut v = vec![timing(Db::D3, 249, 5), mk(Db::D3, 249, 4), mk(Db::D2, 249, 3), mk(Db::D4, 249, 3), mk(Db::D1, 2048, 3), mk(Db::D2, 2048, 3), mk(Db::D5, 249, 4)];
    if tier == "thorough" {
        v.push(timing(Db::D3, 249, 7));
        v.push(timing(Db::D5, 300, 6));
        for db in [Db::D1, Db::D2, Db::D3, Db::D4, Db::D5] {
            for tx in [249usize, 300, 2048] {
                v.push(mk(db, tx, if db == Db::D3 || db == Db::D5 { 5 } else { 4 }));
            }
        }
    }
    v
}

// ---------------------------------------------------------------------------------------
// device attributes: a READ of g0 is answered by a series that ends
// ---------------------------------------------------------------------------------------

/// READ of all attributes (g0v254) / of the variation list (g0v255) of a private set with n
/// attributes, confirmed fragment by fragment by an ideal master: the series is orderly, ends
/// with FIN after a bounded number of fragments, never contains an empty non-final fragment,
/// and -- when everything fits some fragment -- reports every attribute exactly once, ascending.
struct AttrReads;

const ATTR_COUNTS: [usize; 6] = [2, 40, 126, 127, 128, 199];

impl crate::explore::CaseSpace for AttrReads {
    fn name(&self) -> String {
        "attribute-reads".into()
    }
    fn seeded(&self) -> bool {
        true
    }
    fn total(&self) -> usize {
        ATTR_COUNTS.len() * 3 * 3 * 2
    }
    fn run(&self, index: usize, transcript: bool) -> RunResult {
        use dnp3::app::attr::*;
        let mut res = RunResult::default();
        let n = ATTR_COUNTS[index % ATTR_COUNTS.len()];
        let i = index / ATTR_COUNTS.len();
        let tx = [249usize, 600, 2048][i % 3];
        let i = i / 3;
        let req_kind = i % 3; // 0 = all attributes, 1 = variation list, 2 = both
        let long_strings = (i / 3) % 2 == 1;
        res.obs = index as u64 + 110110;
        let cfg = OCfg { sol_tx: tx, confirm_timeout_ms: TO, ..Default::default() };
        let mut sim = OSim::new(&cfg, 1);
        let mut defined: Vec<(u8, Vec<u8>)> = Vec::new(); // variation -> encoded value (type, len, data)
        sim.db(|db| {
            for v in 1..=n {
                let (value, enc): (OwnedAttrValue, Vec<u8>) = if long_strings && v % 50 == 1 {
                    let s = "x".repeat(250);
                    let mut e = vec![1u8, 250];
                    e.extend_from_slice(s.as_bytes());
                    (OwnedAttrValue::VisibleString(s), e)
                } else if v % 2 == 0 {
                    (OwnedAttrValue::UnsignedInt(v as u32), vec![2, 1, v as u8])
                } else {
                    let s = format!("a{v}");
                    let mut e = vec![1u8, s.len() as u8];
                    e.extend_from_slice(s.as_bytes());
                    (OwnedAttrValue::VisibleString(s), e)
                };
                if db.define_attr(AttrProp::default(), OwnedAttribute::new(AttrSet::new(1), v as u8, value)).is_ok() {
                    defined.push((v as u8, enc));
                }
            }
        });
        sim.take_out();
        let mut objs = Vec::new();
        if req_kind != 1 {
            objs.extend_from_slice(&[0, 254, 0x00, 1, 1]);
        }
        if req_kind != 0 {
            objs.extend_from_slice(&[0, 255, 0x00, 1, 1]);
        }
        let key = format!("attributes:{}", ["all", "list", "all+list"][req_kind]);
        sim.send(&app::request(1, fc::READ, &objs));
        let mut frags: Vec<app::Resp> = Vec::new();
        let mut finished = false;
        for _round in 0..80 {
            let rs: Vec<app::Resp> = sim.take_out().iter().filter_map(|t| t.frag()).filter_map(app::Resp::parse).collect();
            if rs.is_empty() {
                break;
            }
            let mut con = None;
            for r in rs {
                res.transitions += 1;
                if transcript {
                    res.transcript.push(format!("<- {} ({} object octets)", app::hex(&r.raw[..4]), r.objects.len()));
                }
                if r.con() {
                    con = Some(r.seq());
                }
                if r.fin() {
                    finished = true;
                }
                frags.push(r);
            }
            if finished {
                break;
            }
            match con {
                Some(s) => sim.send(&app::confirm(s, false)),
                None => break,
            }
        }
        if let Some(f) = sim.failure() {
            res.violation = Some(Violation::new("C11.X0", f.clone(), f));
            return res;
        }
        let what = format!("{n} attributes in set 1, tx {tx}, long strings {long_strings}");
        if frags.is_empty() {
            res.violation = Some(Violation::new("C11.A0", key, format!("{what}: READ not answered")));
            return res;
        }
        if let Some(k) = frags.iter().position(|r| !r.fin() && r.objects.is_empty()) {
            res.violation = Some(Violation::new(
                "C11.A1",
                key,
                format!("{what}: fragment {} of the series is empty and not final (the series can never make progress); {} fragments seen", k + 1, frags.len()),
            ));
            return res;
        }
        if !finished {
            res.violation = Some(Violation::new("C11.A2", key, format!("{what}: no final fragment after {} confirmed fragments", frags.len())));
            return res;
        }
        for (k, r) in frags.iter().enumerate() {
            if r.fir() != (k == 0) || r.seq() != ((1 + k as u8) & 0x0F) {
                res.violation = Some(Violation::new("C11.A3", key, format!("{what}: fragment {} has FIR={} sequence {}", k + 1, r.fir(), r.seq())));
                return res;
            }
        }
        // contents: concatenate and walk
        let mut all = Vec::new();
        for r in &frags {
            match app::walk(&r.objects, false) {
                Ok(h) => all.extend(h),
                Err(e) => {
                    res.violation = Some(Violation::new("C11.A4", key, format!("{what}: a fragment does not decode: {e:?}")));
                    return res;
                }
            }
        }
        let attrs: Vec<(u8, Vec<u8>)> = all.iter().filter(|h| h.group == 0 && h.var != 255).map(|h| (h.var, h.objects.first().map(|o| o.data.clone()).unwrap_or_default())).collect();
        let lists: Vec<Vec<u8>> = all.iter().filter(|h| h.group == 0 && h.var == 255).map(|h| h.objects.first().map(|o| o.data.clone()).unwrap_or_default()).collect();
        // an object that is larger than a whole fragment cannot be reported; everything else must be
        let room = tx - 4;
        if req_kind != 1 {
            let want: Vec<(u8, Vec<u8>)> = defined.iter().filter(|(_, e)| 5 + e.len() <= room).cloned().collect();
            if attrs != want {
                let missing: Vec<u8> = want.iter().filter(|w| !attrs.contains(w)).map(|w| w.0).collect();
                res.violation = Some(Violation::new(
                    "C11.A5",
                    key,
                    format!("{what}: {} attributes reported, {} expected (each once, ascending); first missing / differing variations {:?}", attrs.len(), want.len(), &missing[..missing.len().min(8)]),
                ));
                return res;
            }
        }
        if req_kind != 0 {
            let list_len = 2 * defined.len();
            let fits = 5 + 2 + list_len <= room;
            if fits {
                let mut want = Vec::new();
                for (v, _) in &defined {
                    want.push(*v);
                    want.push(0);
                }
                let got: Vec<u8> = lists.first().map(|l| l[2..].to_vec()).unwrap_or_default();
                if lists.len() != 1 || got != want {
                    res.violation = Some(Violation::new("C11.A6", key, format!("{what}: variation list reported {} times, {} of {} octets", lists.len(), got.len(), want.len())));
                    return res;
                }
            }
        }
        res.nontrivial = true;
        res.model_states.push((frags.len() as u64) << 8 | req_kind as u64);
        res
    }
}

// ---------------------------------------------------------------------------------------
// event classes and static data in one READ: every selected event, then the static data
// ---------------------------------------------------------------------------------------

/// `e` analog events (g32v3, 13 octets each) are waiting; one READ asks for classes 1, 2, 3 and
/// for static data; an ideal master confirms fragment by fragment.  The series is orderly, it
/// reports every waiting event exactly once in order of occurrence, all of them before any
/// static object, and every selected static point exactly once.
struct EventSeries;

const ES_EVENTS: [usize; 7] = [1, 17, 18, 19, 30, 37, 60];
const ES_TX: [usize; 4] = [249, 251, 300, 2048];
const ES_TAILS: [&str; 4] = ["none", "g1v0", "class0", "g30v0-range"];

impl crate::explore::CaseSpace for EventSeries {
    fn name(&self) -> String {
        "events-then-static".into()
    }
    fn seeded(&self) -> bool {
        true
    }
    fn total(&self) -> usize {
        ES_EVENTS.len() * ES_TX.len() * ES_TAILS.len()
    }
    fn run(&self, index: usize, transcript: bool) -> RunResult {
        let mut res = RunResult::default();
        let e = ES_EVENTS[index % ES_EVENTS.len()];
        let i = index / ES_EVENTS.len();
        let tx = ES_TX[i % ES_TX.len()];
        let tail = (i / ES_TX.len()) % ES_TAILS.len();
        res.obs = index as u64 + 3311;
        let cfg = OCfg { sol_tx: tx, confirm_timeout_ms: TO, event_buf: [100; 8], ..Default::default() };
        let mut sim = OSim::new(&cfg, 1);
        sim.db_quiet(|db| {
            for i in 0..3u16 {
                db.add(i, Some(EventClass::Class1), AnalogInputConfig::new(StaticAnalogInputVariation::Group30Var1, EventAnalogInputVariation::Group32Var3, 0.0));
            }
            db.add(0, None, BinaryInputConfig::default());
            db.update(0, &common::binary(true, 1), UpdateOptions::no_event());
        });
        let mut last = [0f64; 3];
        sim.db(|db| {
            for j in 0..e {
                let v = 100.0 + j as f64;
                last[j % 3] = v;
                db.update((j % 3) as u16, &common::analog(v, 1000 + j as u64), UpdateOptions::detect_event());
            }
        });
        sim.take_out();
        let mut objs = app::class_headers(true, true, true, false);
        match tail {
            1 => objs.extend(app::hdr_all(1, 0)),
            2 => objs.extend(app::hdr_all(60, 1)),
            3 => objs.extend(app::hdr_range8(30, 0, 0, 1)),
            _ => {}
        }
        let key = format!("events+{}", ES_TAILS[tail]);
        let what = format!("{e} events, tx {tx}, READ class 1/2/3 + {}", ES_TAILS[tail]);
        sim.send(&app::request(3, fc::READ, &objs));
        let mut frags: Vec<app::Resp> = Vec::new();
        let mut finished = false;
        for _round in 0..40 {
            let rs: Vec<app::Resp> = sim.take_out().iter().filter_map(|t| t.frag()).filter_map(app::Resp::parse).collect();
            if rs.is_empty() {
                break;
            }
            let mut con = None;
            for r in rs {
                res.transitions += 1;
                if transcript {
                    res.transcript.push(format!("<- {} ({} object octets)", app::hex(&r.raw[..4]), r.objects.len()));
                }
                if r.con() {
                    con = Some(r.seq());
                }
                if r.fin() {
                    finished = true;
                }
                frags.push(r);
            }
            match con {
                Some(s) => sim.send(&app::confirm(s, false)),
                None => break,
            }
            if finished {
                // anything after the final fragment is caught below
                let extra: Vec<app::Resp> = sim.take_out().iter().filter_map(|t| t.frag()).filter_map(app::Resp::parse).collect();
                frags.extend(extra);
                break;
            }
        }
        if let Some(f) = sim.failure() {
            res.violation = Some(Violation::new("C11.X0", f.clone(), f));
            return res;
        }
        if frags.is_empty() || !finished {
            res.violation = Some(Violation::new("C11.E0", key, format!("{what}: the series has {} fragments and no final one", frags.len())));
            return res;
        }
        let mut events: Vec<(u32, f64)> = Vec::new();
        let mut statics: Vec<(Kind, u32, f64)> = Vec::new();
        for (k, r) in frags.iter().enumerate() {
            if r.fir() != (k == 0) || r.fin() != (k == frags.len() - 1) || r.seq() != ((3 + k as u8) & 0x0F) {
                res.violation = Some(Violation::new("C11.E1", key, format!("{what}: fragment {} of {} has FIR={} FIN={} sequence {}", k + 1, frags.len(), r.fir(), r.fin(), r.seq())));
                return res;
            }
            let ms = match r.headers().map_err(|e| format!("{e:?}")).and_then(|h| decode_measurements(&h)) {
                Ok(m) => m,
                Err(e) => {
                    res.violation = Some(Violation::new("C11.E2", key, format!("{what}: fragment {} does not decode: {e}", k + 1)));
                    return res;
                }
            };
            for m in ms {
                let v = m.val.as_f64().unwrap_or(f64::NAN);
                if m.is_event {
                    if !statics.is_empty() {
                        res.violation = Some(Violation::new("C11.G7", "event-after-static-data", format!("{what}: {:?}[{}] in fragment {}", m.kind, m.index, k + 1)));
                        return res;
                    }
                    events.push((m.index, v));
                } else {
                    statics.push((m.kind, m.index, v));
                }
            }
        }
        let want_events: Vec<(u32, f64)> = (0..e).map(|j| ((j % 3) as u32, 100.0 + j as f64)).collect();
        if events != want_events {
            res.violation = Some(Violation::new(
                "C11.E3",
                key,
                format!("{what}: the series of {} fragments reports {} of the {e} selected events (first difference at position {:?})", frags.len(), events.len(), events.iter().zip(want_events.iter()).position(|(a, b)| a != b)),
            ));
            return res;
        }
        let cur = |i: usize| if e > i { last[i] } else { 0.0 };
        let want_static: Vec<(Kind, u32, f64)> = match tail {
            1 => vec![(Kind::Binary, 0, 1.0)],
            2 => vec![(Kind::Binary, 0, 1.0), (Kind::Analog, 0, cur(0)), (Kind::Analog, 1, cur(1)), (Kind::Analog, 2, cur(2))],
            3 => vec![(Kind::Analog, 0, cur(0)), (Kind::Analog, 1, cur(1))],
            _ => vec![],
        };
        if statics != want_static {
            res.violation = Some(Violation::new("C11.E4", key, format!("{what}: static part {statics:?}, expected {want_static:?}")));
            return res;
        }
        res.model_states.push((frags.len().min(6) * 10 + tail) as u64);
        res.nontrivial = true;
        res
    }
}

// ---------------------------------------------------------------------------------------
// READs deferred during an unsolicited confirm wait: the last one is answered, alone
// ---------------------------------------------------------------------------------------

/// One or two READs (every ordered pair of a 5-request menu, the same request twice included)
/// arrive while an unsolicited response awaits its confirm, optionally with a database update
/// between them; the wait then ends by confirm or by time-out.  Exactly one series follows: it
/// carries the last READ's sequence number and exactly that READ's selection -- every selected
/// point once, ascending, with the value current when the wait ended.
struct DeferredReads;

const DR_MENU: usize = 5;

impl DeferredReads {
    fn request(k: usize) -> (Vec<u8>, Vec<(Kind, u32)>) {
        let b = |i: u32| (Kind::Binary, i);
        let a = |i: u32| (Kind::Analog, i);
        match k {
            0 => (app::hdr_all(60, 1), vec![b(0), b(1), b(2), b(3), b(9), a(0), a(1)]),
            1 => (app::hdr_all(1, 2), vec![b(0), b(1), b(2), b(3), b(9)]),
            2 => (app::hdr_range8(1, 2, 1, 2), vec![b(1), b(2)]),
            3 => (app::hdr_all(30, 1), vec![a(0), a(1)]),
            _ => {
                let mut o = app::hdr_range8(30, 1, 1, 1);
                o.extend(app::hdr_range8(1, 2, 0, 0));
                (o, vec![a(1), b(0)])
            }
        }
    }
}

impl crate::explore::CaseSpace for DeferredReads {
    fn name(&self) -> String {
        "reads-deferred-during-unsolicited-wait".into()
    }
    fn seeded(&self) -> bool {
        true
    }
    fn total(&self) -> usize {
        (DR_MENU + 1) * DR_MENU * 2 * 2
    }
    fn run(&self, index: usize, transcript: bool) -> RunResult {
        let mut res = RunResult::default();
        let first = index % (DR_MENU + 1); // DR_MENU = no first READ
        let i = index / (DR_MENU + 1);
        let second = i % DR_MENU;
        let i = i / DR_MENU;
        let update_between = i % 2 == 1;
        let by_timeout = (i / 2) % 2 == 1;
        res.obs = index as u64 + 515151;
        let cfg = OCfg { unsolicited: true, max_unsol_retries: Some(0), confirm_timeout_ms: TO, unsol_retry_delay_ms: 60_000, event_buf: [10; 8], ..Default::default() };
        let mut sim = OSim::new(&cfg, 1);
        sim.db_quiet(|db| {
            for i in 0..4u16 {
                db.add(i, None, BinaryInputConfig::new(StaticBinaryInputVariation::Group1Var2, EventBinaryInputVariation::Group2Var1));
                db.update(i, &common::binary(i % 2 == 0, 1), UpdateOptions::no_event());
            }
            for i in 0..2u16 {
                db.add(i, None, AnalogInputConfig::new(StaticAnalogInputVariation::Group30Var1, EventAnalogInputVariation::Group32Var1, 0.0));
                db.update(i, &common::analog(10.0 + i as f64, 1), UpdateOptions::no_event());
            }
            db.add(9, Some(EventClass::Class1), BinaryInputConfig::default());
        });
        common::null_unsol_handshake(&mut sim);
        sim.send(&app::request(1, fc::ENABLE_UNSOLICITED, &app::class_headers(true, true, true, false)));
        sim.take_out();
        sim.db(|db| {
            db.update(9, &common::binary(true, 2), UpdateOptions::detect_event());
        });
        let uns: Option<u8> = sim.take_out().iter().filter_map(|t| t.frag()).filter_map(app::Resp::parse).find(|r| r.uns()).map(|r| r.seq());
        let Some(uns_seq) = uns else {
            res.violation = Some(Violation::new("C11.D0", "setup", "no unsolicited response to wait for".to_string()));
            return res;
        };
        let key = format!("first{}-second{second}", if first == DR_MENU { "-".to_string() } else { first.to_string() });
        let mut values: BTreeMap<(Kind, u32), f64> = BTreeMap::new();
        for i in 0..4u32 {
            values.insert((Kind::Binary, i), (i % 2 == 0) as u8 as f64);
        }
        for i in 0..2u32 {
            values.insert((Kind::Analog, i), 10.0 + i as f64);
        }
        // the point whose event is awaiting its confirm
        values.insert((Kind::Binary, 9), 1.0);
        let mut seq = 1u8;
        let mut early: Vec<app::Resp> = Vec::new();
        if first != DR_MENU {
            seq += 1;
            sim.send(&app::request(seq, fc::READ, &DeferredReads::request(first).0));
            early.extend(sim.take_out().iter().filter_map(|t| t.frag()).filter_map(app::Resp::parse).filter(|r| !r.uns()));
        }
        if update_between {
            sim.db(|db| {
                db.update(1, &common::binary(true, 3), UpdateOptions::no_event());
                db.update(1, &common::analog(77.0, 3), UpdateOptions::no_event());
            });
            values.insert((Kind::Binary, 1), 1.0);
            values.insert((Kind::Analog, 1), 77.0);
        }
        seq += 1;
        let (objs, want) = DeferredReads::request(second);
        sim.send(&app::request(seq, fc::READ, &objs));
        early.extend(sim.take_out().iter().filter_map(|t| t.frag()).filter_map(app::Resp::parse).filter(|r| !r.uns()));
        res.transitions += 2;
        if !early.is_empty() {
            res.violation = Some(Violation::new("C11.D1", "read-answered-while-the-unsolicited-response-awaits-its-confirm", format!("{key}: {}", app::hex(&early[0].raw[..early[0].raw.len().min(16)]))));
            return res;
        }
        if by_timeout {
            sim.advance(TO);
        } else {
            sim.send(&app::confirm(uns_seq, true));
        }
        sim.advance(10);
        let sol: Vec<app::Resp> = sim.take_out().iter().filter_map(|t| t.frag()).filter_map(app::Resp::parse).filter(|r| !r.uns()).collect();
        if let Some(f) = sim.failure() {
            res.violation = Some(Violation::new("C11.X0", f.clone(), f));
            return res;
        }
        if transcript {
            for r in &sol {
                res.transcript.push(format!("<- {}", app::hex(&r.raw[..r.raw.len().min(60)])));
            }
        }
        if sol.len() != 1 || sol[0].seq() != seq || !sol[0].fir() || !sol[0].fin() {
            res.violation = Some(Violation::new(
                "C11.D2",
                "deferred-read-not-answered-exactly-once",
                format!("{key}: {} solicited fragments after the wait ended (expected one FIR|FIN response with sequence {seq}): {:?}", sol.len(), sol.iter().map(|r| app::hex(&r.raw[..4])).collect::<Vec<_>>()),
            ));
            return res;
        }
        let ms = match sol[0].headers().map_err(|e| format!("{e:?}")).and_then(|h| decode_measurements(&h)) {
            Ok(m) => m,
            Err(e) => {
                res.violation = Some(Violation::new("C11.G6", "objects-not-decodable", e));
                return res;
            }
        };
        let got: Vec<((Kind, u32), f64)> = ms.iter().map(|m| ((m.kind, m.index), m.val.as_f64().unwrap_or(f64::NAN))).collect();
        let expect: Vec<((Kind, u32), f64)> = want.iter().map(|k| (*k, values[k])).collect();
        if got != expect {
            res.violation = Some(Violation::new(
                "C11.D3",
                "deferred-read-answer-is-not-its-selection",
                format!("{key} (update between: {update_between}, ended by {}): answered {got:?}, the last READ selects {expect:?}", if by_timeout { "time-out" } else { "confirm" }),
            ));
            return res;
        }
        res.nontrivial = true;
        res.model_states.push((first * 8 + second) as u64);
        res
    }
}

// ---------------------------------------------------------------------------------------
// which types a class 0 READ reports is a configuration
// ---------------------------------------------------------------------------------------

/// one point of every type; class 0 configured to leave out no type, each single type, all but
/// one type, or every type: a class 0 READ (alone, and after classes 1/2/3) reports exactly the
/// points of the types that are switched on, each once
struct ClassZero;

const CZ_KINDS: [Kind; 8] = [Kind::Binary, Kind::DoubleBit, Kind::BinaryOutputStatus, Kind::Counter, Kind::FrozenCounter, Kind::Analog, Kind::AnalogOutputStatus, Kind::OctetString];

impl crate::explore::CaseSpace for ClassZero {
    fn name(&self) -> String {
        "class-zero-configuration".into()
    }
    fn seeded(&self) -> bool {
        true
    }
    fn total(&self) -> usize {
        (1 + 8 + 8 + 1) * 2
    }
    fn run(&self, index: usize, transcript: bool) -> RunResult {
        let mut res = RunResult::default();
        let with_events_header = index % 2 == 1;
        let c = index / 2;
        let mut off = [false; 8];
        match c {
            0 => {}
            1..=8 => off[c - 1] = true,
            9..=16 => {
                off = [true; 8];
                off[c - 9] = false;
            }
            _ => off = [true; 8],
        }
        res.obs = index as u64 + 272727;
        let cfg = OCfg { sol_tx: 2048, confirm_timeout_ms: TO, class_zero_octet_strings: true, class_zero_off: off, ..Default::default() };
        let mut sim = OSim::new(&cfg, 1);
        sim.db_quiet(|db| {
            db.add(1, None, BinaryInputConfig::default());
            db.add(2, None, DoubleBitBinaryInputConfig::default());
            db.add(3, None, BinaryOutputStatusConfig::default());
            db.add(4, None, CounterConfig::default());
            db.add(5, None, FrozenCounterConfig::default());
            db.add(6, None, AnalogInputConfig::default());
            db.add(7, None, AnalogOutputStatusConfig::default());
            db.add(8, None, OctetStringConfig);
        });
        sim.take_out();
        let mut objs = Vec::new();
        if with_events_header {
            objs.extend(app::class_headers(true, true, true, false));
        }
        objs.extend(app::hdr_all(60, 1));
        sim.send(&app::request(2, fc::READ, &objs));
        res.transitions += 1;
        let rs: Vec<app::Resp> = sim.take_out().iter().filter_map(|t| t.frag()).filter_map(app::Resp::parse).collect();
        if let Some(f) = sim.failure() {
            res.violation = Some(Violation::new("C11.X0", f.clone(), f));
            return res;
        }
        let key = format!("types-left-out:{:?}", CZ_KINDS.iter().zip(off.iter()).filter(|(_, o)| **o).map(|(k, _)| format!("{k:?}")).collect::<Vec<_>>());
        if rs.len() != 1 || !rs[0].fir() || !rs[0].fin() || rs[0].seq() != 2 {
            res.violation = Some(Violation::new("C11.Z0", key, format!("{} response fragments", rs.len())));
            return res;
        }
        let ms = match rs[0].headers().map_err(|e| format!("{e:?}")).and_then(|h| decode_measurements(&h)) {
            Ok(m) => m,
            Err(e) => {
                res.violation = Some(Violation::new("C11.G6", "objects-not-decodable", e));
                return res;
            }
        };
        let mut got: Vec<(Kind, u32)> = ms.iter().map(|m| (m.kind, m.index)).collect();
        let mut want: Vec<(Kind, u32)> = CZ_KINDS.iter().enumerate().filter(|(i, _)| !off[*i]).map(|(i, k)| (*k, i as u32 + 1)).collect();
        if transcript {
            res.transcript.push(format!("{key}: reported {got:?}"));
        }
        got.sort();
        want.sort();
        if got != want {
            res.violation = Some(Violation::new("C11.Z1", "class-zero-answer-is-not-the-configured-selection", format!("{key}: reported {got:?}, configured {want:?}")));
            return res;
        }
        res.nontrivial = true;
        res.model_states.push(c as u64);
        res
    }
}

// ---------------------------------------------------------------------------------------
// every requestable static variation x qualifier; READs at a configured header limit
// ---------------------------------------------------------------------------------------

/// Three points of each of the seven types. (1) READ g<N>v<M> for every static variation of every
/// type (26) x {all objects, 8-bit range 1..=2, 16-bit range 0..=1}: exactly the selected points,
/// in the requested variation (or its flagged promotion), with the snapshot's values. (2) the
/// configured limit of READ headers L in {65, 70, 100} (above the minimum of 64): a READ of
/// exactly L one-point headers is answered completely, each header with its point.
struct RequestedVariations;

const RV_STATIC: [(u8, &[u8]); 7] = [(1, &[1, 2]), (3, &[1, 2]), (10, &[1, 2]), (20, &[1, 2, 5, 6]), (21, &[1, 2, 5, 6, 9, 10]), (30, &[1, 2, 3, 4, 5, 6]), (40, &[1, 2, 3, 4])];
const RV_LIMITS: [u16; 3] = [65, 70, 100];

impl RequestedVariations {
    fn gvs() -> Vec<(u8, u8)> {
        RV_STATIC.iter().flat_map(|(g, vs)| vs.iter().map(move |v| (*g, *v))).collect()
    }
}

impl crate::explore::CaseSpace for RequestedVariations {
    fn name(&self) -> String {
        "requested-variations".into()
    }
    fn seeded(&self) -> bool {
        true
    }
    fn total(&self) -> usize {
        Self::gvs().len() * 3 + RV_LIMITS.len()
    }
    fn run(&self, index: usize, transcript: bool) -> RunResult {
        let mut res = RunResult::default();
        res.obs = index as u64 + 313131;
        let gvs = Self::gvs();
        let (hdrs, limit): (Vec<Hdr>, Option<u16>) = if index < gvs.len() * 3 {
            let (g, v) = gvs[index / 3];
            let h = match index % 3 {
                0 => Hdr::All(g, v),
                1 => Hdr::Range8(g, v, 1, 2),
                _ => Hdr::Range16(g, v, 0, 1),
            };
            (vec![h], None)
        } else {
            let l = RV_LIMITS[index - gvs.len() * 3];
            let hs = (0..l)
                .map(|k| {
                    let (g, vs) = RV_STATIC[k as usize % 7];
                    let i = (k % 3) as u8;
                    Hdr::Range8(g, vs[0], i, i)
                })
                .collect();
            (hs, Some(l))
        };
        let cfg = OCfg { sol_tx: 2048, confirm_timeout_ms: TO, max_read_headers: limit, ..Default::default() };
        let mut sim = OSim::new(&cfg, 1);
        let snap = build(Db::D6, &mut sim);
        sim.take_out();
        let objs: Vec<u8> = hdrs.iter().flat_map(|h| h.bytes()).collect();
        sim.send(&app::request(3, fc::READ, &objs));
        res.transitions += 1;
        let rs: Vec<app::Resp> = sim.take_out().iter().filter_map(|t| t.frag()).filter_map(app::Resp::parse).collect();
        if let Some(f) = sim.failure() {
            res.violation = Some(Violation::new("C11.X0", f.clone(), f));
            return res;
        }
        let key = if limit.is_some() { format!("limit-{}", limit.unwrap()) } else { format!("{:?}", hdrs[0]) };
        if transcript {
            res.transcript.push(format!("READ {key}: {}", app::hex(&objs[..objs.len().min(60)])));
            for r in &rs {
                res.transcript.push(format!("<- {}", app::hex(&r.raw[..r.raw.len().min(120)])));
            }
        }
        if rs.len() != 1 || !rs[0].fir() || !rs[0].fin() || rs[0].seq() != 3 {
            res.violation = Some(Violation::new("C11.R0", "not-answered-in-one-fragment", format!("{key}: {} response fragments", rs.len())));
            return res;
        }
        if rs[0].iin2 & app::iin2::ERROR_MASK != 0 {
            res.violation = Some(Violation::new("C11.R1", "well-formed-read-rejected", format!("{key}: IIN2={:02X}", rs[0].iin2)));
            return res;
        }
        let ms = match rs[0].headers().map_err(|e| format!("{e:?}")).and_then(|h| decode_measurements(&h)) {
            Ok(m) => m,
            Err(e) => {
                res.violation = Some(Violation::new("C11.G6", "objects-not-decodable", e));
                return res;
            }
        };
        let series = Series {
            seq0: 3,
            hdrs,
            snap,
            next_seq: 4,
            awaiting: None,
            confirmed: false,
            frags: 1,
            collected: ms,
            saw_static: true,
            done: true,
            dead: false,
            deadline: None,
        };
        if let Some(mut v) = check_complete_series(&series) {
            v.key = format!("{}:{key}", v.key);
            res.violation = Some(v);
            return res;
        }
        res.nontrivial = true;
        res.model_states.push(index as u64);
        res
    }
}

pub fn replay(scenario: &str, path: &[usize]) -> Option<RunResult> {
    {
        use crate::explore::CaseSpace;
        if scenario == AttrReads.name() {
            return Some(AttrReads.run(path[0], true));
        }
        if scenario == EventSeries.name() {
            return Some(EventSeries.run(path[0], true));
        }
        if scenario == DeferredReads.name() {
            return Some(DeferredReads.run(path[0], true));
        }
        if scenario == ClassZero.name() {
            return Some(ClassZero.run(path[0], true));
        }
        if scenario == RequestedVariations.name() {
            return Some(RequestedVariations.run(path[0], true));
        }
    }
    scenarios("thorough").into_iter().find(|s| s.name == scenario).map(|s| s.run(path, true))
}

pub fn check(tier: &str) -> i32 {
    let mut c = Check::new("C11", tier);
    for s in scenarios(tier) {
        c.explore(&s);
    }
    c.cases(&AttrReads);
    c.cases(&EventSeries);
    c.cases(&DeferredReads);
    c.cases(&ClassZero);
    c.cases(&RequestedVariations);
    c.finish(
        "model_checking",
        "every event history over the listed alphabet (8-10 READ requests per database: class 0, class 1230, all objects, 8/16-bit ranges inside / overlapping / outside the index set, a specific variation, several headers; right / wrong / late solicited confirm, confirm timeout, another request, reconnect, update of a selected and of another point) up to the listed depth on five databases (packed binaries; eight types with sparse indices; 100 analogs; binaries with mixed flags; 60 analogs followed by binaries whose *flags* are updated while the series is under way) and three transmit buffer sizes; a mirrored database is snapshotted when each READ is delivered and the concatenated series is compared with it; plus timing histories (three fifths of the confirm timeout pass; the wait for a confirm ends at its deadline whatever else arrived meanwhile), and a product of waiting event counts {1,17,18,19,30,37,60} x transmit sizes {249,251,300,2048} x static tails {none, g1v0, class 0, g30 range} read together with classes 1/2/3 (every waiting event exactly once and in order, before any static object); the class 0 configuration (no type, each single type, all but one, every type left out) against a database with one point of every type; every static variation of every type (26) requested by all-objects / 8-bit range / 16-bit range against three points of each type, and READs of exactly 65 / 70 / 100 one-point headers with that number configured as the header limit; and one or two READs (every ordered pair of 5 requests) deferred during an unsolicited confirm wait that ends by confirm or time-out, with and without an update between them: one answer, with the last READ's sequence number and exactly its selection at current values; non-trivial = a series completed (and spanned several fragments for the small buffers); distinct = distinct observation trace",
        &[
            "updates are placed at quiescent points between fragments (H6 lock-point placements are not built)",
            "values are small integers representable in every variation used (variation-specific carrying is C10's subject)",
            "the order of point types inside a class-0 answer is not constrained; within a type indices ascend",
        ],
        serde_json::json!({}),
    )
}
