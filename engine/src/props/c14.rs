//! C14 — unsolicited reporting obeys the start-up, enable, retry and deferral rules.
//!
//! SM exploration from a freshly created outstation (no start-up prefix); oracle = temporal
//! monitor over virtual timestamps of everything transmitted (DESIGN §5 C14).

use super::c03::{decode_events, start_raw, Driver, Ev, Pt, C03};
use super::common::Step;
use crate::explore::{Check, Hasher, RunResult, Scenario, Violation};
use crate::osim::Tx;
use crate::wire::app::{self, fc};

const TO: u64 = super::c03::TO;

#[derive(Clone, Debug)]
struct Out {
    raw: Vec<u8>,
    seq: u8,
    t_last: u64,
    retries: usize,
    is_null: bool,
}

struct Mon {
    rd: u64,
    max_retries: Option<usize>,
    null_confirmed: bool,
    enabled: [bool; 3],
    out: Option<Out>,
    failed_at: Option<u64>,
    last_useq: Option<u8>,
    /// deferred READ: (sequence, must be answered at this instant once the series ended)
    deferred: Option<u8>,
    deferred_due: Option<(u8, u64)>,
    series_seen: usize,
    data_series_seen: usize,
}

impl Mon {
    fn awaited(&self, t: u64) -> bool {
        self.out.as_ref().map(|o| o.t_last + TO > t).unwrap_or(false)
    }

    /// the series ended without confirmation at instant `t`
    fn end_series(&mut self, t: u64, failed: bool) {
        if let Some(o) = self.out.take() {
            if failed && !o.is_null {
                self.failed_at = Some(t);
            }
            if let Some(s) = self.deferred.take() {
                self.deferred_due = Some((s, t));
            }
        }
    }

    /// bring the model up to instant `t` (strictly before anything transmitted at `t`)
    fn advance_to(&mut self, t: u64) -> Option<Violation> {
        if let Some(o) = &self.out {
            let deadline = o.t_last + TO;
            if deadline < t {
                // no retry was observed at the deadline: the series ended there
                let may_retry = !o.is_null && self.max_retries.map(|m| o.retries < m).unwrap_or(true) && self.deferred.is_none();
                if may_retry {
                    return Some(Violation::new(
                        "C14.U4b",
                        "no-retry-although-retries-remain",
                        format!("series seq {} timed out at t={} with {} retries done (limit {:?}) and was not retried", o.seq, deadline, o.retries, self.max_retries),
                    ));
                }
                self.end_series(deadline, true);
            }
        }
        if let Some((s, due)) = self.deferred_due {
            if due < t {
                return Some(Violation::new(
                    "C14.U7",
                    "deferred-read-not-answered-when-series-ended",
                    format!("READ seq {s} was deferred; the series ended at t={due} and no response followed"),
                ));
            }
        }
        None
    }

    fn on_unsolicited(&mut self, r: &app::Resp, t: u64, d: &Driver) -> Option<Violation> {
        if !(r.fir() && r.fin() && r.con() && r.func == fc::UNSOLICITED_RESPONSE) {
            return Some(Violation::new("C14.U0", "unsolicited-response-flags", app::hex(&r.raw[..4])));
        }
        if let Some(v) = self.advance_to(t) {
            return Some(v);
        }
        if let Some(o) = &mut self.out {
            let deadline = o.t_last + TO;
            if t < deadline {
                let key = if o.raw == r.raw { "retry-before-confirm-timeout" } else { "second-unsolicited-response-while-one-is-outstanding" };
                return Some(Violation::new("C14.U3", key, format!("outstanding seq {} sent t={}, another at t={}", o.seq, o.t_last, t)));
            }
            // t == deadline
            if o.raw == r.raw {
                if o.is_null {
                    return Some(Violation::new("C14.U1", "null-unsolicited-retried-with-same-sequence", app::hex(&r.raw)));
                }
                let allowed = self.max_retries.map(|m| o.retries < m).unwrap_or(true);
                if !allowed {
                    return Some(Violation::new("C14.U4", "more-retries-than-configured", format!("retry #{} with limit {:?}", o.retries + 1, self.max_retries)));
                }
                if self.deferred.is_some() {
                    // a retry although a READ is waiting is not forbidden by the statement
                }
                o.retries += 1;
                o.t_last = t;
                return None;
            }
            // a different response at the deadline: the old series ended here
            let may_retry = !o.is_null && self.max_retries.map(|m| o.retries < m).unwrap_or(true) && self.deferred.is_none();
            if may_retry && o.seq == r.seq() {
                return Some(Violation::new("C14.U4c", "retry-not-identical", format!("{} vs {}", app::hex(&o.raw), app::hex(&r.raw))));
            }
            self.end_series(deadline, true);
        }
        // a new series starts
        self.series_seen += 1;
        if let Some(prev) = self.last_useq {
            if (prev + 1) & 0x0F != r.seq() {
                return Some(Violation::new("C14.U1b", "unsolicited-sequence-not-fresh", format!("previous {} new {}", prev, r.seq())));
            }
        }
        self.last_useq = Some(r.seq());
        let is_null = r.objects.is_empty();
        if !self.null_confirmed {
            if !is_null {
                return Some(Violation::new("C14.U1", "data-before-null-unsolicited-confirmed", app::hex(&r.raw[..r.raw.len().min(24)])));
            }
        } else {
            if is_null {
                return Some(Violation::new("C14.U2b", "empty-unsolicited-response-after-start-up", app::hex(&r.raw)));
            }
            self.data_series_seen += 1;
            // only enabled classes
            let evs = match decode_events(r) {
                Ok(e) => e,
                Err(e) => return Some(Violation::new("C14.U2", "unsolicited-not-decodable", e)),
            };
            for e in &evs {
                let class = d
                    .ledger
                    .rows
                    .iter()
                    .find(|row| row.typ == e.typ && row.index == e.index && row.value == e.value && e.time.map(|t| t == row.time).unwrap_or(true))
                    .map(|row| row.class);
                match class {
                    Some(c) if self.enabled[(c - 1) as usize] => {}
                    Some(c) => {
                        return Some(Violation::new(
                            "C14.U2",
                            format!("unsolicited-event-of-disabled-class-{c}"),
                            format!("{e:?} while enabled = {:?}", self.enabled),
                        ));
                    }
                    None => return Some(Violation::new("C14.U2", "unsolicited-event-unknown", format!("{e:?}"))),
                }
            }
            if let Some(f) = self.failed_at {
                if t < f + self.rd {
                    return Some(Violation::new(
                        "C14.U5",
                        "new-series-before-retry-delay",
                        format!("previous series failed at t={f}, retry delay {}, new series at t={t}", self.rd),
                    ));
                }
            }
        }
        self.out = Some(Out { raw: r.raw.clone(), seq: r.seq(), t_last: t, retries: 0, is_null });
        None
    }

    fn step(&mut self, ev: &Ev, sent: Option<&[u8]>, step: &Step, t_before: u64, d: &Driver) -> Option<Violation> {
        // 1. the event itself (delivered at t_before)
        let mut pending_cfg: Option<(u8, bool, [bool; 3])> = None; // (seq, enable, classes)
        let mut expect_immediate: Option<u8> = None;
        let mut read_now: Option<u8> = None;
        match ev {
            Ev::UnsConfirm(_) => {
                let seq = sent.map(|f| f[0] & 0x0F).unwrap_or(0);
                if self.awaited(t_before) && self.out.as_ref().map(|o| o.seq) == Some(seq) {
                    let was_null = self.out.as_ref().map(|o| o.is_null).unwrap_or(false);
                    if was_null {
                        self.null_confirmed = true;
                    }
                    self.failed_at = None;
                    self.end_series(t_before, false);
                }
            }
            Ev::Disable => pending_cfg = Some((sent.unwrap()[0] & 0x0F, false, [true, true, true])),
            Ev::DisableC1 => pending_cfg = Some((sent.unwrap()[0] & 0x0F, false, [true, false, false])),
            Ev::EnableAll => pending_cfg = Some((sent.unwrap()[0] & 0x0F, true, [true, true, true])),
            Ev::EnableC1 => pending_cfg = Some((sent.unwrap()[0] & 0x0F, true, [true, false, false])),
            Ev::EnableOnly(k) => pending_cfg = Some((sent.unwrap()[0] & 0x0F, true, [*k == 1, *k == 2, *k == 3])),
            Ev::DisableOnly(k) => pending_cfg = Some((sent.unwrap()[0] & 0x0F, false, [*k == 1, *k == 2, *k == 3])),
            Ev::Read(..) | Ev::ReadClass0 | Ev::ReadBinaryEvents => read_now = Some(sent.unwrap()[0] & 0x0F),
            Ev::RepeatRead => read_now = sent.map(|f| f[0] & 0x0F),
            Ev::Other => {}
            Ev::Reconnect | Ev::Replace => {
                self.out = None;
                self.deferred = None;
                self.deferred_due = None;
                self.failed_at = None;
            }
            _ => {}
        }
        let is_request = matches!(
            ev,
            Ev::Disable | Ev::DisableC1 | Ev::EnableAll | Ev::EnableC1 | Ev::EnableOnly(_) | Ev::DisableOnly(_) | Ev::Other | Ev::Read(..) | Ev::ReadClass0 | Ev::ReadBinaryEvents
        ) || (*ev == Ev::RepeatRead && sent.is_some());
        if is_request {
            let seq = sent.unwrap()[0] & 0x0F;
            if self.awaited(t_before) {
                if let Some(s) = read_now {
                    // deferred: no immediate response, answered when the series ends
                    self.deferred = Some(s);
                } else {
                    self.deferred = None; // superseded
                    expect_immediate = Some(seq);
                }
            } else {
                expect_immediate = Some(seq);
            }
        }

        // 2. transmissions in order
        let mut answered: Vec<(u8, u64)> = Vec::new();
        for t in &step.out {
            let Tx::Frag { t: ts, data, .. } = t else { continue };
            let Some(r) = app::Resp::parse(data) else { continue };
            if r.uns() {
                if let Some(v) = self.on_unsolicited(&r, *ts, d) {
                    return Some(v);
                }
            } else if r.fir() {
                answered.push((r.seq(), *ts));
                if let Some(v) = self.advance_to(*ts) {
                    return Some(v);
                }
                // every solicited response answers the request of this step, or a deferred READ;
                // a READ that a later request superseded is never answered
                let owed = expect_immediate == Some(r.seq()) || self.deferred == Some(r.seq()) || self.deferred_due.map(|d| d.0) == Some(r.seq());
                if !owed {
                    return Some(Violation::new(
                        "C14.U7d",
                        "response-to-a-request-that-is-not-owed-one",
                        format!("solicited response seq {} at t={ts}: no request with that sequence number is waiting for an answer (a superseded deferred READ?)", r.seq()),
                    ));
                }
                // configuration requests take hold when they are answered
                if let Some((seq, enable, classes)) = pending_cfg {
                    if r.seq() == seq {
                        pending_cfg = None;
                        for k in 0..3 {
                            if classes[k] {
                                self.enabled[k] = enable;
                            }
                        }
                        if !enable && self.out.is_some() && r.iin2 & app::iin2::ERROR_MASK == 0 {
                            // DISABLE_UNSOLICITED ends the current series
                            self.end_series(*ts, true);
                            self.deferred_due = None;
                        }
                    }
                }
                // a deferred READ must not be answered while the series is still awaited
                if let Some(s) = self.deferred {
                    if r.seq() == s {
                        if self.awaited(*ts) {
                            return Some(Violation::new(
                                "C14.U7c",
                                "deferred-read-answered-before-series-ended",
                                format!("READ seq {s} answered at t={ts} while the unsolicited response was still awaited"),
                            ));
                        }
                        // answered at the deadline: the series ended there without a retry
                        self.deferred = None;
                        let deadline = self.out.as_ref().map(|o| o.t_last + TO).unwrap_or(*ts);
                        self.end_series(deadline, true);
                    }
                }
                if let Some((s, _)) = self.deferred_due {
                    if r.seq() == s {
                        self.deferred_due = None;
                    }
                }
            }
        }
        // 3. bring the model to the end of the step
        if let Some(v) = self.advance_to(step.now) {
            return Some(v);
        }
        if let Some(o) = &self.out {
            if o.t_last + TO == step.now {
                // deadline reached exactly at the end of the step and nothing was transmitted:
                // the timer has fired (the step settles), so the series is over unless retried
                let may_retry = !o.is_null && self.max_retries.map(|m| o.retries < m).unwrap_or(true) && self.deferred.is_none();
                if may_retry {
                    return Some(Violation::new(
                        "C14.U4b",
                        "no-retry-although-retries-remain",
                        format!("series seq {} timed out at t={} and was not retried", o.seq, step.now),
                    ));
                }
                // (a timed-out null response is regenerated as soon as the session is idle again;
                // that it eventually is, is checked by the liveness drain)
                self.end_series(step.now, true);
            }
        }
        if let Some((s, due)) = self.deferred_due {
            if due <= step.now {
                return Some(Violation::new(
                    "C14.U7",
                    "deferred-read-not-answered-when-series-ended",
                    format!("READ seq {s} was deferred; the series ended at t={due} and no response followed"),
                ));
            }
        }
        if let Some(seq) = expect_immediate {
            let got = answered.iter().any(|(s, ts)| *s == seq && *ts == t_before);
            // a READ that ended a solicited confirm wait may be overtaken by an unsolicited
            // response that starts at the same instant; it is then deferred like any READ that
            // arrives during the unsolicited wait
            let overtaken = read_now == Some(seq) && !got && self.out.as_ref().map(|o| o.t_last == t_before).unwrap_or(false);
            if overtaken {
                self.deferred = Some(seq);
            } else if !got {
                return Some(Violation::new(
                    "C14.U7b",
                    "request-not-answered-immediately",
                    format!("{ev:?} seq {seq} delivered at t={t_before} got no response at that instant"),
                ));
            }
        }
        if let Some(seq) = read_now {
            if self.deferred == Some(seq) && answered.iter().any(|(s, ts)| *s == seq && *ts == t_before) && self.awaited(t_before) {
                return Some(Violation::new("C14.U7c", "deferred-read-answered-before-series-ended", format!("seq {seq}")));
            }
        }
        None
    }

    fn key(&self, now: u64) -> u64 {
        let mut h = Hasher::default();
        h.add_u64(self.null_confirmed as u64);
        h.add_u64(self.enabled.iter().fold(0u64, |a, b| a * 2 + *b as u64));
        match &self.out {
            None => h.add_u64(0),
            Some(o) => {
                h.add_u64(1 + o.is_null as u64 + 2 * o.retries.min(3) as u64);
                h.add_u64(now.saturating_sub(o.t_last).min(TO));
            }
        }
        h.add_u64(self.failed_at.map(|f| 1 + now.saturating_sub(f).min(self.rd)).unwrap_or(0));
        h.add_u64(self.deferred.is_some() as u64);
        h.0
    }
}

pub struct C14 {
    inner: C03,
    rd: u64,
}

fn alphabet(rd: u64, reconnect: bool) -> Vec<Ev> {
    let mut v = vec![
        Ev::UnsConfirm(true),
        Ev::EnableAll,
        Ev::Upd(Pt::B0),
        Ev::Adv(TO),
        Ev::Upd(Pt::B1),
        Ev::EnableC1,
        Ev::DisableC1,
        Ev::Disable,
        Ev::UnsConfirm(false),
        Ev::SolConfirm(true),
        Ev::Read(true, false, false, None),
        Ev::ReadClass0,
        Ev::Other,
        Ev::Adv(TO - 1),
        Ev::Adv(1),
    ];
    if rd != TO {
        v.push(Ev::Adv(rd - 1));
        v.push(Ev::Adv(rd));
    }
    if reconnect {
        v.push(Ev::Reconnect);
        v.push(Ev::Replace);
    }
    v
}

impl Scenario for C14 {
    fn name(&self) -> String {
        self.inner.name.clone()
    }
    fn alphabet(&self) -> Vec<String> {
        self.inner.alphabet.iter().map(|e| format!("{e:?}")).collect()
    }
    fn depth(&self) -> usize {
        self.inner.depth
    }
    fn run(&self, path: &[usize], transcript: bool) -> RunResult {
        let mut res = RunResult::default();
        let mut obs = Hasher::default();
        let mut cfg = self.inner.cfg();
        cfg.unsol_retry_delay_ms = self.rd;
        let mut d = start_raw(&cfg, false);
        let mut mon = Mon {
            rd: self.rd,
            max_retries: self.inner.retries,
            null_confirmed: false,
            enabled: [false; 3],
            out: None,
            failed_at: None,
            last_useq: None,
            deferred: None,
            deferred_due: None,
            series_seen: 0,
            data_series_seen: 0,
        };
        // the start-up null response has been transmitted by the time the first event arrives
        {
            let t0 = d.sim.k.now_ms();
            let out = d.sim.take_out();
            d.sim.take_cb();
            let step = Step { now: t0, cbs: vec![], cb_ords: vec![], out };
            if transcript {
                for t in &step.out {
                    if let Tx::Frag { t, data, .. } = t {
                        res.transcript.push(format!("t={t} (start-up) <- {}", app::hex(data)));
                    }
                }
            }
            if let Some(v) = mon.step(&Ev::Adv(0), None, &step, t0, &d) {
                res.violation = Some(v);
            }
        }
        let mut run = |ev: &Ev, d: &mut Driver, mon: &mut Mon, res: &mut RunResult, obs: &mut Hasher| -> Option<Violation> {
            let t_before = d.sim.k.now_ms();
            let lv = d.apply(ev, res, obs, transcript);
            if let Some(mut v) = lv {
                if v.clause.starts_with("C03") {
                    v.clause = v.clause.replace("C03", "C14.L");
                }
                return Some(v);
            }
            let step = d.last_step.take().unwrap();
            let sent = d.last_sent.clone();
            let v = mon.step(ev, sent.as_deref(), &step, t_before, d);
            res.model_states.push(mon.key(step.now));
            v
        };
        if res.violation.is_none() {
            for &i in path {
                if let Some(v) = run(&self.inner.alphabet[i], &mut d, &mut mon, &mut res, &mut obs) {
                    res.violation = Some(v);
                    break;
                }
            }
        }
        // U8 liveness: with an ideal master from here on, every held event of an enabled class is
        // reported unsolicited
        if res.violation.is_none() {
            if transcript {
                res.transcript.push("-- liveness drain --".to_string());
            }
            let mut script: Vec<Ev> = Vec::new();
            for _ in 0..6 {
                script.push(Ev::UnsConfirm(true));
                script.push(Ev::Adv(TO.max(self.rd)));
            }
            let before = mon.data_series_seen;
            for ev in &script {
                if let Some(v) = run(ev, &mut d, &mut mon, &mut res, &mut obs) {
                    res.violation = Some(v);
                    break;
                }
            }
            if res.violation.is_none() && !mon.null_confirmed {
                res.violation = Some(Violation::new(
                    "C14.U1c",
                    "start-up-null-response-never-confirmed-by-ideal-master",
                    format!("an ideal master confirmed every unsolicited response for {} s and still no null response was confirmed", 6 * TO.max(self.rd) / 1000),
                ));
            }
            if res.violation.is_none() && mon.null_confirmed {
                let stuck: Vec<u64> = d
                    .ledger
                    .held()
                    .filter(|r| mon.enabled[(r.class - 1) as usize])
                    .map(|r| r.id)
                    .collect();
                if !stuck.is_empty() {
                    res.violation = Some(Violation::new(
                        "C14.U8",
                        "enabled-class-events-never-reported-unsolicited",
                        format!("events {stuck:?} of enabled classes {:?} still held after an ideal master confirmed everything for {} s ({} data series during the drain)", mon.enabled, 6 * TO.max(self.rd) / 1000, mon.data_series_seen - before),
                    ));
                }
            }
        }
        res.obs = obs.0;
        res.nontrivial = mon.series_seen >= 2;
        res
    }
}

fn scenarios(tier: &str) -> Vec<C14> {
    let mk = |name: &str, depth: usize, rd: u64, retries: Option<usize>, reconnect: bool| C14 {
        inner: C03 { name: name.to_string(), alphabet: alphabet(rd, reconnect), depth, unsol: true, buf: 5, cto: false, retries, overflow_model: false },
        rd,
    };
    // every class on its own: enable / disable exactly class 1, 2 or 3, updates in all three
    let classes = C14 {
        inner: C03 {
            name: "classes-d5-rd5000-retries0".to_string(),
            alphabet: vec![
                Ev::UnsConfirm(true),
                Ev::EnableC1,
                Ev::EnableOnly(2),
                Ev::EnableOnly(3),
                Ev::EnableAll,
                Ev::DisableC1,
                Ev::DisableOnly(2),
                Ev::DisableOnly(3),
                Ev::Upd(Pt::B0),
                Ev::Upd(Pt::B1),
                Ev::Upd(Pt::C0),
                Ev::Adv(TO),
            ],
            depth: 5,
            unsol: true,
            buf: 5,
            cto: false,
            retries: Some(0),
            overflow_model: false,
        },
        rd: 5000,
    };
    // a READ answered from idle and sent again, byte for byte, during a later unsolicited wait
    let repeat = C14 {
        inner: C03 {
            name: "repeat-read-d6-rd5000-retries0".to_string(),
            alphabet: vec![Ev::UnsConfirm(true), Ev::EnableAll, Ev::ReadClass0, Ev::Read(true, false, false, None), Ev::Upd(Pt::B0), Ev::RepeatRead, Ev::Adv(TO), Ev::Other],
            depth: 6,
            unsol: true,
            buf: 5,
            cto: false,
            retries: Some(0),
            overflow_model: false,
        },
        rd: 5000,
    };
    // a retry delay longer than the confirm timeout: after a failed series the next one starts
    // at the retry delay, neither at the confirm timeout nor earlier
    let long_delay = C14 {
        inner: C03 {
            name: "long-delay-d6-rd8000-retries0".to_string(),
            alphabet: vec![Ev::UnsConfirm(true), Ev::EnableAll, Ev::Upd(Pt::B0), Ev::Upd(Pt::B1), Ev::Adv(TO), Ev::Adv(8000 - TO - 1), Ev::Adv(1), Ev::Other],
            depth: 6,
            unsol: true,
            buf: 5,
            cto: false,
            retries: Some(0),
            overflow_model: false,
        },
        rd: 8000,
    };
    let mut v = vec![
        classes,
        repeat,
        long_delay,
        mk("d5-rd5000-retries0", 5, 5000, Some(0), false),
        mk("d5-rd5000-retries1", 5, 5000, Some(1), false),
        mk("d4-rd2000-retries1", 4, 2000, Some(1), true),
    ];
    if tier == "thorough" {
        v.push(mk("d6-rd5000-retries0", 6, 5000, Some(0), true));
        v.push(mk("d6-rd5000-retries1", 6, 5000, Some(1), false));
        v.push(mk("d5-rd5000-retries2", 5, 5000, Some(2), true));
        v.push(mk("d5-rd5000-retriesNone", 5, 5000, None, true));
        v.push(mk("d5-rd2000-retries0", 5, 2000, Some(0), true));
        v.push(mk("d5-rd2000-retries2", 5, 2000, Some(2), false));
    }
    v
}

// ---------------------------------------------------------------------------------------
// ENABLE / DISABLE_UNSOLICITED by broadcast
// ---------------------------------------------------------------------------------------

/// enabled set before {none, all} x {ENABLE, DISABLE} x every non-empty set of classes x the three
/// broadcast addresses x {from idle, while an unsolicited response awaits its confirm}: afterwards
/// exactly the classes of (before + S) resp. (before - S) are reported unsolicited
struct BroadcastConfig;

impl crate::explore::CaseSpace for BroadcastConfig {
    fn name(&self) -> String {
        "enable-disable-by-broadcast".into()
    }
    fn seeded(&self) -> bool {
        true
    }
    fn total(&self) -> usize {
        2 * 2 * 7 * 3 * 2
    }
    fn run(&self, index: usize, transcript: bool) -> RunResult {
        use crate::osim::{OCfg, OSim, MASTER_ADDR};
        use dnp3::outstation::database::*;
        let mut res = RunResult::default();
        let before_all = index % 2 == 1;
        let i = index / 2;
        let enable = i % 2 == 1;
        let i = i / 2;
        let set = 1 + i % 7; // bit k = class k+1
        let i = i / 7;
        let dst = [0xFFFFu16, 0xFFFE, 0xFFFD][i % 3];
        let during_wait = (i / 3) % 2 == 1;
        res.obs = index as u64 + 141414;
        let cfg = OCfg { unsolicited: true, broadcast: true, max_unsol_retries: Some(0), confirm_timeout_ms: TO, unsol_retry_delay_ms: 1000, event_buf: [10; 8], ..Default::default() };
        let mut sim = OSim::new(&cfg, 1);
        sim.db(|db| {
            for (k, c) in [EventClass::Class1, EventClass::Class2, EventClass::Class3].iter().enumerate() {
                db.add(k as u16, Some(*c), BinaryInputConfig::default());
            }
            // a fourth point whose event occupies the outstation while the broadcast arrives
            db.add(3, Some(EventClass::Class1), BinaryInputConfig::default());
        });
        super::common::null_unsol_handshake(&mut sim);
        let mut seq = 0u8;
        let mut enabled = [false; 3];
        if before_all || during_wait {
            seq += 1;
            sim.send(&app::request(seq, fc::ENABLE_UNSOLICITED, &app::class_headers(true, true, true, false)));
            if before_all {
                enabled = [true; 3];
            }
        }
        sim.take_out();
        let key = format!(
            "{}-{}-classes{}{}{}-to-{dst:04X}-{}",
            if before_all { "all-enabled" } else { "none-enabled" },
            if enable { "enable" } else { "disable" },
            if set & 1 != 0 { "1" } else { "" },
            if set & 2 != 0 { "2" } else { "" },
            if set & 4 != 0 { "3" } else { "" },
            if during_wait { "during-confirm-wait" } else { "idle" }
        );
        let mut reported: Vec<u32> = Vec::new();
        let mut pending_confirm: Option<u8> = None;
        if during_wait {
            // an unsolicited response is outstanding when the broadcast arrives
            sim.db(|db| {
                db.update(3, &super::common::binary(true, 5), UpdateOptions::detect_event());
            });
            sim.pump();
            for t in sim.take_out() {
                if let Some(r) = t.frag().and_then(app::Resp::parse) {
                    if r.uns() {
                        pending_confirm = Some(r.seq());
                    }
                }
            }
            if !before_all {
                // only class 1 .. 3 were enabled to get here: take them back by unicast first is not
                // possible without ending the wait, so the model starts from "all enabled"
                enabled = [true; 3];
            }
        }
        seq += 1;
        let classes = app::class_headers(set & 1 != 0, set & 2 != 0, set & 4 != 0, false);
        sim.send_from(MASTER_ADDR, dst, &app::request(seq, if enable { fc::ENABLE_UNSOLICITED } else { fc::DISABLE_UNSOLICITED }, &classes));
        res.transitions += 1;
        for k in 0..3 {
            if set & (1 << k) != 0 {
                enabled[k] = enable;
            }
        }
        if let Some(s) = pending_confirm {
            sim.send(&app::confirm(s, true));
        }
        sim.db(|db| {
            for k in 0..3u16 {
                db.update(k, &super::common::binary(true, 10 + k as u64), UpdateOptions::detect_event());
            }
        });
        sim.pump();
        for _round in 0..12 {
            let mut any = false;
            for t in sim.take_out() {
                let Some(r) = t.frag().and_then(app::Resp::parse) else { continue };
                if !r.uns() {
                    continue;
                }
                any = true;
                if let Ok(hs) = r.headers() {
                    if let Ok(ms) = crate::wire::objects::decode_measurements(&hs) {
                        for m in ms {
                            if m.is_event && m.index < 3 && !reported.contains(&m.index) {
                                reported.push(m.index);
                            }
                        }
                    }
                }
                sim.send(&app::confirm(r.seq(), true));
            }
            if !any {
                sim.advance(1000);
            }
        }
        if let Some(f) = sim.failure() {
            res.violation = Some(Violation::new("C14.X0", f.clone(), f));
            return res;
        }
        reported.sort();
        let want: Vec<u32> = (0..3u32).filter(|k| enabled[*k as usize]).collect();
        if transcript {
            res.transcript.push(format!("{key}: classes reported unsolicited {:?}, enabled by the model {:?}", reported.iter().map(|k| k + 1).collect::<Vec<_>>(), want.iter().map(|k| k + 1).collect::<Vec<_>>()));
        }
        if reported != want {
            let clause = if reported.iter().any(|k| !want.contains(k)) { "C14.B1" } else { "C14.B2" };
            res.violation = Some(Violation::new(
                clause,
                if clause == "C14.B1" { "event-of-a-class-disabled-by-broadcast-reported-unsolicited" } else { "event-of-a-class-enabled-by-broadcast-never-reported-unsolicited" },
                format!("{key}: classes reported unsolicited {:?}, expected {:?}", reported.iter().map(|k| k + 1).collect::<Vec<_>>(), want.iter().map(|k| k + 1).collect::<Vec<_>>()),
            ));
            return res;
        }
        res.nontrivial = true;
        res.model_states.push((set * 4 + enable as usize * 2 + before_all as usize) as u64);
        res
    }
}

// ---------------------------------------------------------------------------------------
// a deferred READ with as many object headers as the outstation accepts
// ---------------------------------------------------------------------------------------

/// a READ with 1, 63, 64 (the limit) or 65 single-point headers arrives during an unsolicited
/// confirm wait and is deferred: once the wait ends it is answered like the same READ from idle
/// (every header up to the limit served; beyond the limit an error indication)
struct DeferredLimit;

impl crate::explore::CaseSpace for DeferredLimit {
    fn name(&self) -> String {
        "deferred-read-at-the-header-limit".into()
    }
    fn seeded(&self) -> bool {
        true
    }
    fn total(&self) -> usize {
        4 * 2
    }
    fn run(&self, index: usize, transcript: bool) -> RunResult {
        use crate::osim::{OCfg, OSim};
        use dnp3::outstation::database::*;
        let mut res = RunResult::default();
        let n = [1usize, 63, 64, 65][index % 4];
        let by_timeout = index / 4 == 1;
        res.obs = index as u64 + 646464;
        let answer = |deferred: bool| -> Result<Vec<u8>, String> {
            let cfg = OCfg { unsolicited: true, max_unsol_retries: Some(0), confirm_timeout_ms: TO, unsol_retry_delay_ms: 60_000, event_buf: [10; 8], ..Default::default() };
            let mut sim = OSim::new(&cfg, 1);
            sim.db_quiet(|db| {
                for i in 0..70u16 {
                    db.add(i, None, BinaryInputConfig::new(StaticBinaryInputVariation::Group1Var2, EventBinaryInputVariation::Group2Var1));
                    db.update(i, &super::common::binary(i % 3 == 0, 1), UpdateOptions::no_event());
                }
                db.add(100, Some(EventClass::Class1), BinaryInputConfig::default());
            });
            let useq = super::common::null_unsol_handshake(&mut sim).ok_or("no null unsolicited response")?;
            sim.send(&app::request(1, fc::ENABLE_UNSOLICITED, &app::class_headers(true, true, true, false)));
            sim.take_out();
            let mut pending = None;
            if deferred {
                sim.db(|db| {
                    db.update(100, &super::common::binary(true, 2), UpdateOptions::detect_event());
                });
                pending = sim.take_out().iter().filter_map(|t| t.frag()).filter_map(app::Resp::parse).find(|r| r.uns()).map(|r| r.seq());
                if pending.is_none() {
                    return Err(format!("no unsolicited response to wait for (null was {useq})"));
                }
            }
            let mut objs = Vec::new();
            for i in 0..n {
                objs.extend(app::hdr_range8(1, 2, i as u8, i as u8));
            }
            sim.send(&app::request(2, fc::READ, &objs));
            if let Some(s) = pending {
                let early: Vec<app::Resp> = sim.take_out().iter().filter_map(|t| t.frag()).filter_map(app::Resp::parse).filter(|r| !r.uns()).collect();
                if !early.is_empty() {
                    return Err("answered during the unsolicited confirm wait".to_string());
                }
                if by_timeout {
                    sim.advance(TO);
                } else {
                    sim.send(&app::confirm(s, true));
                }
                sim.advance(10);
            }
            if let Some(f) = sim.failure() {
                return Err(f);
            }
            let sol: Vec<app::Resp> = sim.take_out().iter().filter_map(|t| t.frag()).filter_map(app::Resp::parse).filter(|r| !r.uns() && r.seq() == 2).collect();
            match sol.first() {
                Some(r) => {
                    // the class bits differ (an event is or is not waiting): compare IIN2 and the objects
                    let mut v = vec![r.iin2];
                    v.extend_from_slice(&r.objects);
                    Ok(v)
                }
                None => Err("READ never answered".to_string()),
            }
        };
        let from_idle = answer(false);
        let deferred = answer(true);
        res.transitions += 2;
        if transcript {
            res.transcript.push(format!("{n} headers: from idle {:?}", from_idle.as_ref().map(|v| v.len())));
            res.transcript.push(format!("{n} headers: deferred  {:?}", deferred.as_ref().map(|v| v.len())));
        }
        match (&from_idle, &deferred) {
            (Ok(a), Ok(b)) if a == b => {}
            _ => {
                res.violation = Some(Violation::new(
                    "C14.D1",
                    format!("deferred-read-answered-differently-from-the-same-read-from-idle:{n}-headers"),
                    format!(
                        "READ with {n} single-point headers: from idle {:?}, deferred until the unsolicited wait ended by {} {:?}",
                        from_idle.as_ref().map(|v| format!("IIN2 {:02X} + {} object octets", v[0], v.len() - 1)),
                        if by_timeout { "time-out" } else { "confirm" },
                        deferred.as_ref().map(|v| format!("IIN2 {:02X} + {} object octets", v[0], v.len() - 1)),
                    ),
                ));
                return res;
            }
        }
        res.nontrivial = true;
        res.model_states.push(n as u64);
        res
    }
}

pub fn replay(scenario: &str, path: &[usize]) -> Option<RunResult> {
    {
        use crate::explore::CaseSpace;
        if scenario == BroadcastConfig.name() {
            return Some(BroadcastConfig.run(path[0], true));
        }
        if scenario == DeferredLimit.name() {
            return Some(DeferredLimit.run(path[0], true));
        }
    }
    scenarios("thorough").into_iter().find(|s| s.inner.name == scenario).map(|s| s.run(path, true))
}

pub fn check(tier: &str) -> i32 {
    let mut c = Check::new("C14", tier);
    for s in scenarios(tier) {
        c.explore(&s);
    }
    c.cases(&BroadcastConfig);
    c.cases(&DeferredLimit);
    c.finish(
        "model_checking",
        "(broadcast) {nothing, everything} enabled before x {ENABLE, DISABLE}_UNSOLICITED x the 7 non-empty class sets x the 3 broadcast addresses x {from idle, while an unsolicited response awaits its confirm}: afterwards exactly the classes of the resulting set are reported unsolicited; (header limit) a READ with 1 / 63 / 64 / 65 single-point headers deferred during an unsolicited wait is answered exactly like the same READ from idle; (histories) every event history over the listed alphabet (updates in two classes, ENABLE/DISABLE_UNSOLICITED for class 1 / all, right and wrong unsolicited confirms, solicited confirm, READ class 1 / class 0, another request, time advances to confirm timeout -1 ms / +1 ms / exactly and around the retry delay, reconnect) from a freshly created outstation (start-up null response included) up to the listed depth, followed by a liveness drain with an ideal master; a temporal monitor over virtual timestamps checks every transmitted fragment; non-trivial = at least two unsolicited series were observed; distinct = distinct observation trace",
        &[
            "confirm timeout 5 s; retry delay 5 s and 2 s; retry limits 0,1 (quick) and None,0,1,2 (thorough)",
            "after a reconnect the monitor does not constrain when the next series starts",
        ],
        serde_json::json!({}),
    )
}
