//! Master simulation: the real `MasterTask` (inside the real `Session` wrapper and a copy of
//! the TCP client's connect/run/retry loop) over a byte pipe, driven by the kernel.

use std::future::Future;
use std::sync::{Arc, Mutex};
use std::time::Duration;

use dnp3::app::attr::AnyAttribute;
use dnp3::app::measurement::*;
use dnp3::app::{BufferSize, FunctionCode, MaybeAsync, ResponseHeader, Sequence, Timestamp};
use dnp3::decode::DecodeLevel;
use dnp3::link::{EndpointAddress, LinkErrorMode, LinkReadMode};
use dnp3::master::*;
use dnp3::verif::pipe::{next_order, PipeHandle};
use dnp3::verif::sim::{self, LinkSettings, MasterConnector, SessionLog};

use crate::kernel::Kernel;
use crate::osim::decode_everything;
use crate::wire::link::{self, LinkFrame};
use crate::wire::transport::{self, Reassembler, Segment};

pub const MASTER_ADDR: u16 = 1;
pub const OUTSTATION_ADDR: u16 = 1024;

/// one measurement value handed to the read handler
#[derive(Clone, Debug, PartialEq)]
pub struct Val {
    pub kind: &'static str,
    pub index: u16,
    pub value: f64,
    pub bytes: Vec<u8>,
    pub flags: u8,
    /// (ms, quality: 0 = synchronized, 1 = unsynchronized, 2 = invalid/none)
    pub time: Option<(u64, u8)>,
}

/// recorded master-side callbacks
#[derive(Clone, Debug, PartialEq)]
pub enum MCb {
    BeginFragment { read_type: String, ctrl: u8, iin1: u8, iin2: u8 },
    EndFragment { read_type: String, ctrl: u8 },
    Header { var: String, qual: String, is_event: bool, has_flags: bool },
    Value(Val),
    Attr(String),
    AbsTime(u64),
    TaskStart(String, u8, u8),
    TaskSuccess(String, u8, u8),
    TaskFail(String, String),
    Unsolicited(bool, u8),
    /// a user future completed: (name, Debug of the result)
    Done(String, String),
}

#[derive(Default)]
pub struct MCbLogInner {
    pub v: Vec<MCb>,
    pub ord: Vec<u64>,
}

impl MCbLogInner {
    pub fn push(&mut self, cb: MCb) {
        self.ord.push(next_order());
        self.v.push(cb);
    }
}

pub type MCbLog = Arc<Mutex<MCbLogInner>>;

pub fn time_of(t: Option<Time>) -> Option<(u64, u8)> {
    match t {
        None => None,
        Some(Time::Synchronized(x)) => Some((x.raw_value(), 0)),
        Some(Time::Unsynchronized(x)) => Some((x.raw_value(), 1)),
    }
}

pub struct Handler {
    pub log: MCbLog,
    pub tag: &'static str,
}

impl Handler {
    fn hdr(&mut self, info: HeaderInfo) {
        self.log.lock().unwrap().push(MCb::Header {
            var: format!("{:?}", info.variation),
            qual: format!("{:?}", info.qualifier),
            is_event: info.is_event,
            has_flags: info.has_flags,
        });
    }
    fn val(&mut self, v: Val) {
        self.log.lock().unwrap().push(MCb::Value(v));
    }
}

impl ReadHandler for Handler {
    fn begin_fragment(&mut self, read_type: ReadType, header: ResponseHeader) -> MaybeAsync<()> {
        let c = header.control;
        let ctrl = ((c.fir as u8) << 7) | ((c.fin as u8) << 6) | ((c.con as u8) << 5) | ((c.uns as u8) << 4) | c.seq.value();
        self.log.lock().unwrap().push(MCb::BeginFragment {
            read_type: format!("{}{read_type:?}", self.tag),
            ctrl,
            iin1: header.iin.iin1.value,
            iin2: header.iin.iin2.value,
        });
        MaybeAsync::ready(())
    }
    fn end_fragment(&mut self, read_type: ReadType, header: ResponseHeader) -> MaybeAsync<()> {
        let c = header.control;
        let ctrl = ((c.fir as u8) << 7) | ((c.fin as u8) << 6) | ((c.con as u8) << 5) | ((c.uns as u8) << 4) | c.seq.value();
        self.log.lock().unwrap().push(MCb::EndFragment { read_type: format!("{}{read_type:?}", self.tag), ctrl });
        MaybeAsync::ready(())
    }
    fn handle_binary_input(&mut self, info: HeaderInfo, iter: &mut dyn Iterator<Item = (BinaryInput, u16)>) {
        self.hdr(info);
        for (v, i) in iter {
            self.val(Val { kind: "binary", index: i, value: v.value as u8 as f64, bytes: vec![], flags: v.flags.value, time: time_of(v.time) });
        }
    }
    fn handle_double_bit_binary_input(&mut self, info: HeaderInfo, iter: &mut dyn Iterator<Item = (DoubleBitBinaryInput, u16)>) {
        self.hdr(info);
        for (v, i) in iter {
            let n = match v.value {
                DoubleBit::Intermediate => 0.0,
                DoubleBit::DeterminedOff => 1.0,
                DoubleBit::DeterminedOn => 2.0,
                DoubleBit::Indeterminate => 3.0,
            };
            self.val(Val { kind: "double", index: i, value: n, bytes: vec![], flags: v.flags.value, time: time_of(v.time) });
        }
    }
    fn handle_binary_output_status(&mut self, info: HeaderInfo, iter: &mut dyn Iterator<Item = (BinaryOutputStatus, u16)>) {
        self.hdr(info);
        for (v, i) in iter {
            self.val(Val { kind: "bostatus", index: i, value: v.value as u8 as f64, bytes: vec![], flags: v.flags.value, time: time_of(v.time) });
        }
    }
    fn handle_counter(&mut self, info: HeaderInfo, iter: &mut dyn Iterator<Item = (Counter, u16)>) {
        self.hdr(info);
        for (v, i) in iter {
            self.val(Val { kind: "counter", index: i, value: v.value as f64, bytes: vec![], flags: v.flags.value, time: time_of(v.time) });
        }
    }
    fn handle_frozen_counter(&mut self, info: HeaderInfo, iter: &mut dyn Iterator<Item = (FrozenCounter, u16)>) {
        self.hdr(info);
        for (v, i) in iter {
            self.val(Val { kind: "frozencounter", index: i, value: v.value as f64, bytes: vec![], flags: v.flags.value, time: time_of(v.time) });
        }
    }
    fn handle_analog_input(&mut self, info: HeaderInfo, iter: &mut dyn Iterator<Item = (AnalogInput, u16)>) {
        self.hdr(info);
        for (v, i) in iter {
            self.val(Val { kind: "analog", index: i, value: v.value, bytes: vec![], flags: v.flags.value, time: time_of(v.time) });
        }
    }
    fn handle_frozen_analog_input(&mut self, info: HeaderInfo, iter: &mut dyn Iterator<Item = (FrozenAnalogInput, u16)>) {
        self.hdr(info);
        for (v, i) in iter {
            self.val(Val { kind: "frozenanalog", index: i, value: v.value, bytes: vec![], flags: v.flags.value, time: time_of(v.time) });
        }
    }
    fn handle_analog_input_dead_band(&mut self, info: HeaderInfo, iter: &mut dyn Iterator<Item = (AnalogInputDeadBand, u16)>) {
        self.hdr(info);
        for (v, i) in iter {
            self.log.lock().unwrap().push(MCb::Attr(format!("deadband[{i}]={v:?}")));
        }
    }
    fn handle_analog_output_status(&mut self, info: HeaderInfo, iter: &mut dyn Iterator<Item = (AnalogOutputStatus, u16)>) {
        self.hdr(info);
        for (v, i) in iter {
            self.val(Val { kind: "aostatus", index: i, value: v.value, bytes: vec![], flags: v.flags.value, time: time_of(v.time) });
        }
    }
    fn handle_analog_output_command_event(&mut self, info: HeaderInfo, iter: &mut dyn Iterator<Item = (AnalogOutputCommandEvent, u16)>) {
        self.hdr(info);
        for (v, i) in iter {
            self.log.lock().unwrap().push(MCb::Attr(format!("aocmd[{i}]={v:?}")));
        }
    }
    fn handle_binary_output_command_event(&mut self, info: HeaderInfo, iter: &mut dyn Iterator<Item = (BinaryOutputCommandEvent, u16)>) {
        self.hdr(info);
        for (v, i) in iter {
            self.log.lock().unwrap().push(MCb::Attr(format!("bocmd[{i}]={v:?}")));
        }
    }
    fn handle_unsigned_integer(&mut self, info: HeaderInfo, iter: &mut dyn Iterator<Item = (UnsignedInteger, u16)>) {
        self.hdr(info);
        for (v, i) in iter {
            self.log.lock().unwrap().push(MCb::Attr(format!("uint[{i}]={v:?}")));
        }
    }
    fn handle_octet_string<'a>(&mut self, info: HeaderInfo, iter: &'a mut dyn Iterator<Item = (&'a [u8], u16)>) {
        self.hdr(info);
        for (v, i) in iter {
            self.val(Val { kind: "octets", index: i, value: f64::NAN, bytes: v.to_vec(), flags: 0, time: None });
        }
    }
    fn handle_device_attribute(&mut self, info: HeaderInfo, attr: AnyAttribute) {
        self.hdr(info);
        self.log.lock().unwrap().push(MCb::Attr(format!("{attr:?}")));
    }
    fn handle_abs_time(&mut self, info: HeaderInfo, time: Timestamp) {
        self.hdr(info);
        self.log.lock().unwrap().push(MCb::AbsTime(time.raw_value()));
    }
}

/// master clock: base + virtual now, or unavailable
#[derive(Clone)]
pub struct Clock {
    pub base_ms: Arc<Mutex<Option<u64>>>,
    pub t0: tokio::time::Instant,
}

pub struct AssocHandler {
    pub clock: Clock,
}

impl AssociationHandler for AssocHandler {
    fn get_current_time(&self) -> Option<Timestamp> {
        let base = (*self.clock.base_ms.lock().unwrap())?;
        let elapsed = (tokio::time::Instant::now() - self.clock.t0).as_millis() as u64;
        let v = base.checked_add(elapsed)?;
        if v > (1u64 << 48) - 1 {
            return None; // a real clock cannot be beyond what DNP3 can express
        }
        Some(Timestamp::new(v))
    }
}

pub struct AssocInfo {
    pub log: MCbLog,
}

impl AssociationInformation for AssocInfo {
    fn task_start(&mut self, task_type: TaskType, fc: FunctionCode, seq: Sequence) {
        self.log.lock().unwrap().push(MCb::TaskStart(format!("{task_type:?}"), fc.as_u8(), seq.value()));
    }
    fn task_success(&mut self, task_type: TaskType, fc: FunctionCode, seq: Sequence) {
        self.log.lock().unwrap().push(MCb::TaskSuccess(format!("{task_type:?}"), fc.as_u8(), seq.value()));
    }
    fn task_fail(&mut self, task_type: TaskType, error: TaskError) {
        self.log.lock().unwrap().push(MCb::TaskFail(format!("{task_type:?}"), format!("{error:?}")));
    }
    fn unsolicited_response(&mut self, is_duplicate: bool, seq: Sequence) {
        self.log.lock().unwrap().push(MCb::Unsolicited(is_duplicate, seq.value()));
    }
}

#[derive(Clone, Debug)]
pub struct MCfg {
    pub tx: usize,
    pub rx: usize,
    pub decode_all: bool,
    pub close_on_error: bool,
    pub reconnect_delay_ms: u64,
}

impl Default for MCfg {
    fn default() -> Self {
        Self { tx: 2048, rx: 2048, decode_all: true, close_on_error: true, reconnect_delay_ms: 1000 }
    }
}

/// something the master transmitted
#[derive(Clone, Debug, PartialEq, Eq, Hash)]
pub enum MTx {
    Frag { t: u64, ord: u64, dst: u16, src: u16, data: Vec<u8> },
    Link { t: u64, ord: u64, frame: LinkFrame },
    Garbage { t: u64, len: usize },
}

impl MTx {
    pub fn frag(&self) -> Option<&[u8]> {
        match self {
            MTx::Frag { data, .. } => Some(data),
            _ => None,
        }
    }
}

pub struct MSim {
    pub k: Kernel,
    pub channel: MasterChannel,
    conn: MasterConnector,
    pub pipe: Option<PipeHandle>,
    pub slog: SessionLog,
    pub cb: MCbLog,
    pub clock: Clock,
    pub out: Vec<MTx>,
    stream: Vec<u8>,
    reasm: Reassembler,
    pub tseq: u8,
    actor: usize,
    last_ord: u64,
    pub sessions: usize,
}

impl MSim {
    pub fn new(cfg: &MCfg, seed: u64) -> Self {
        let mut k = Kernel::new(seed);
        let cb: MCbLog = Default::default();
        let slog: SessionLog = Default::default();
        let mut mc = MasterChannelConfig::new(EndpointAddress::try_new(MASTER_ADDR).unwrap());
        mc.tx_buffer_size = BufferSize::new(cfg.tx).unwrap();
        mc.rx_buffer_size = BufferSize::new(cfg.rx).unwrap();
        mc.decode_level = if cfg.decode_all { decode_everything() } else { DecodeLevel::nothing() };
        let link = LinkSettings {
            error_mode: if cfg.close_on_error { LinkErrorMode::Close } else { LinkErrorMode::Discard },
            read_mode: LinkReadMode::Stream,
            parse_zero_length_strings: false,
        };
        let (fut, channel, conn, t0) = k.enter(|| {
            let (f, c, n) = sim::master(link, mc, Duration::from_millis(cfg.reconnect_delay_ms), slog.clone());
            (f, c, n, tokio::time::Instant::now())
        });
        let actor = k.spawn("master", fut);
        let clock = Clock { base_ms: Arc::new(Mutex::new(Some(1_000_000))), t0 };
        let mut s = Self {
            k,
            channel,
            conn,
            pipe: None,
            slog,
            cb,
            clock,
            out: Vec::new(),
            stream: Vec::new(),
            reasm: Reassembler::new(2048),
            tseq: 0,
            actor,
            last_ord: 0,
            sessions: 0,
        };
        s.connect();
        s
    }

    pub fn connect(&mut self) {
        let h = self.conn.connect().expect("master connect loop alive");
        self.pipe = Some(h);
        self.sessions += 1;
        self.stream.clear();
        self.reasm.reset();
        self.pump();
    }

    pub fn disconnect(&mut self) {
        if let Some(p) = &self.pipe {
            p.set_eof();
        }
        self.pump();
        self.pipe = None;
    }

    pub fn task_done(&self) -> bool {
        self.k.is_done(self.actor)
    }

    /// number of times the master task future has been polled
    pub fn master_polls(&self) -> u64 {
        self.k.polls_of(self.actor)
    }

    /// run a user-API future as an actor; its Debug-formatted result is logged as `MCb::Done`
    pub fn call<T: std::fmt::Debug + 'static>(&mut self, name: &str, fut: impl Future<Output = T> + 'static) -> usize {
        let log = self.cb.clone();
        let n = name.to_string();
        let id = self.k.spawn(
            name,
            Box::pin(async move {
                let r = fut.await;
                log.lock().unwrap().push(MCb::Done(n, format!("{r:?}")));
            }),
        );
        self.pump();
        id
    }

    /// run a user-API future to completion (settling only); panics if it does not complete
    pub fn call_now<T: 'static>(&mut self, name: &str, fut: impl Future<Output = T> + 'static) -> Option<T> {
        let slot: Arc<Mutex<Option<T>>> = Arc::new(Mutex::new(None));
        let s2 = slot.clone();
        self.k.spawn(
            name,
            Box::pin(async move {
                let r = fut.await;
                *s2.lock().unwrap() = Some(r);
            }),
        );
        self.pump();
        let r = slot.lock().unwrap().take();
        r
    }

    pub fn handlers(&self, tag: &'static str) -> (Box<dyn ReadHandler>, Box<dyn AssociationHandler>, Box<dyn AssociationInformation>) {
        (
            Box::new(Handler { log: self.cb.clone(), tag }),
            Box::new(AssocHandler { clock: self.clock.clone() }),
            Box::new(AssocInfo { log: self.cb.clone() }),
        )
    }

    pub fn add_association(&mut self, addr: u16, config: AssociationConfig) -> Option<AssociationHandle> {
        let (r, a, i) = self.handlers("");
        let mut ch = self.channel.clone();
        let address = EndpointAddress::try_new(addr).unwrap();
        self.call_now("add_association", async move { ch.add_association(address, config, r, a, i).await })
            .and_then(|r| r.ok())
    }

    fn drain_pipe(&mut self) {
        let t = self.k.now_ms();
        let writes = match &self.pipe {
            Some(p) => p.take_tx(),
            None => Vec::new(),
        };
        for (ord, w) in writes {
            self.stream.extend_from_slice(&w);
            self.last_ord = ord;
            let (frames, rest) = link::parse_stream(&self.stream);
            let consumed = self.stream.len() - rest;
            let framed: usize = frames.iter().map(|f| link::frame_len(f.payload.len())).sum();
            if framed != consumed {
                self.out.push(MTx::Garbage { t, len: consumed - framed });
            }
            self.stream.drain(..consumed);
            for f in frames {
                let is_data = f.is_prm()
                    && (f.func() == link::PRI_UNCONFIRMED_USER_DATA || f.func() == link::PRI_CONFIRMED_USER_DATA);
                if is_data {
                    let seg = Segment { src: f.src, dst: f.dst, broadcast: false, data: f.payload.clone() };
                    if let Some(d) = self.reasm.push(&seg) {
                        self.out.push(MTx::Frag { t, ord, dst: d.dst, src: d.src, data: d.data });
                    }
                } else {
                    self.out.push(MTx::Link { t, ord, frame: f });
                }
            }
        }
    }

    pub fn pump(&mut self) {
        self.k.settle();
        self.drain_pipe();
    }

    pub fn send_raw(&mut self, bytes: &[u8]) {
        if let Some(p) = &self.pipe {
            p.push(bytes);
        }
        self.pump();
    }

    /// frame a response fragment from outstation `src` to master `dst`
    pub fn frame_fragment(&mut self, src: u16, dst: u16, frag: &[u8]) -> Vec<u8> {
        let mut bytes = Vec::new();
        let segs = transport::segment(frag, self.tseq);
        self.tseq = (self.tseq + segs.len() as u8) & 0x3F;
        for s in segs {
            bytes.extend(link::outstation_data(dst, src, &s));
        }
        bytes
    }

    pub fn respond(&mut self, frag: &[u8]) {
        let b = self.frame_fragment(OUTSTATION_ADDR, MASTER_ADDR, frag);
        self.send_raw(&b);
    }

    pub fn respond_from(&mut self, src: u16, frag: &[u8]) {
        let b = self.frame_fragment(src, MASTER_ADDR, frag);
        self.send_raw(&b);
    }

    pub fn advance(&mut self, ms: u64) {
        let target = self.k.now_ms() + ms;
        loop {
            let now = self.k.now_ms();
            if now >= target {
                break;
            }
            let woke = self.k.tick(Duration::from_millis(target - now));
            if woke {
                self.pump();
                if self.k.livelock || self.k.panic.is_some() {
                    return;
                }
            } else {
                break;
            }
        }
        self.pump();
    }

    pub fn take_out(&mut self) -> Vec<MTx> {
        std::mem::take(&mut self.out)
    }

    pub fn take_cb(&mut self) -> (Vec<MCb>, Vec<u64>) {
        let mut g = self.cb.lock().unwrap();
        (std::mem::take(&mut g.v), std::mem::take(&mut g.ord))
    }

    pub fn session_log(&self) -> Vec<String> {
        self.slog.lock().unwrap().clone()
    }

    pub fn failure(&self) -> Option<String> {
        if let Some(p) = &self.k.panic {
            return Some(format!("panic: {p}"));
        }
        if self.k.livelock {
            return Some("livelock: poll cap hit".to_string());
        }
        None
    }
}
