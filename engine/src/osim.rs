//! Outstation simulation: the real `OutstationTask` (inside the real `ServerTask`) over a
//! byte pipe, driven by the kernel. Everything observable is recorded as plain data.

use std::sync::{Arc, Mutex};
use std::time::Duration;

use dnp3::app::attr::Attribute;
use dnp3::app::control::*;
use dnp3::app::{BufferSize, FunctionCode, MaybeAsync, RequestHeader, Sequence, Timeout, Timestamp};
use dnp3::decode::*;
use dnp3::link::{EndpointAddress, LinkErrorMode, LinkReadMode};
use dnp3::outstation::database::*;
use dnp3::outstation::*;
use dnp3::verif::pipe::PipeHandle;
use dnp3::verif::sim::{self, LinkSettings, OutstationConnector, SessionLog};

use crate::kernel::Kernel;
use crate::wire::link::{self, LinkFrame};
use crate::wire::transport::{self, Reassembler, Segment};

pub const OUTSTATION_ADDR: u16 = 10;
pub const MASTER_ADDR: u16 = 1;

/// recorded callbacks
#[derive(Clone, Debug, PartialEq)]
pub enum Cb {
    // OutstationApplication
    WriteAbsTime(u64),
    ColdRestart,
    WarmRestart,
    Freeze(String),
    BeginDeadbands,
    WriteDeadband(u16, f64),
    EndDeadbands,
    WriteAttr(String),
    BeginConfirm,
    EventCleared(u64),
    EndConfirm { classes: [usize; 3], types: [usize; 8] },
    // OutstationInformation
    ReqFromIdle(u8),
    Broadcast(String),
    EnterSolConfirmWait(u8),
    SolConfirmTimeout(u8),
    SolConfirmReceived(u8),
    SolNewRequest,
    WrongSolConfirmSeq(u8, u8),
    UnexpectedConfirm(bool, u8),
    EnterUnsolConfirmWait(u8),
    UnsolConfirmTimeout(u8, bool),
    UnsolConfirmed(u8),
    ClearRestartIin,
    // ControlHandler
    BeginFragment,
    EndFragment,
    Select(String, u16),
    Operate(String, u16, u8),
}

impl Cb {
    /// callbacks that *execute* something on behalf of a request
    pub fn is_executing(&self) -> bool {
        matches!(
            self,
            Cb::WriteAbsTime(_)
                | Cb::ColdRestart
                | Cb::WarmRestart
                | Cb::Freeze(_)
                | Cb::BeginDeadbands
                | Cb::WriteDeadband(_, _)
                | Cb::EndDeadbands
                | Cb::WriteAttr(_)
                | Cb::ClearRestartIin
                | Cb::BeginFragment
                | Cb::EndFragment
                | Cb::Select(_, _)
                | Cb::Operate(_, _, _)
        )
    }
}

/// callback log: (observation order, callback)
#[derive(Default)]
pub struct CbLogInner {
    pub v: Vec<Cb>,
    pub ord: Vec<u64>,
}

impl CbLogInner {
    pub fn push(&mut self, cb: Cb) {
        self.ord.push(dnp3::verif::pipe::next_order());
        self.v.push(cb);
    }
}

pub type CbLog = Arc<Mutex<CbLogInner>>;

/// application behaviour, switchable by the driver
#[derive(Clone, Debug)]
pub struct AppBehaviour {
    pub iin: ApplicationIin,
    pub processing_delay_ms: u16,
    pub restart_delay: Option<RestartDelay>,
    pub accept_time: bool,
    pub accept_freeze: bool,
    pub deadbands: bool,
    /// a successful write_absolute_time clears the NEED_TIME indication
    pub clear_need_time_on_write: bool,
}

impl Default for AppBehaviour {
    fn default() -> Self {
        Self {
            iin: ApplicationIin::default(),
            processing_delay_ms: 0,
            restart_delay: Some(RestartDelay::Seconds(1)),
            accept_time: true,
            accept_freeze: true,
            deadbands: true,
            clear_need_time_on_write: false,
        }
    }
}

pub type AppState = Arc<Mutex<AppBehaviour>>;

pub struct App {
    pub log: CbLog,
    pub state: AppState,
}

impl OutstationApplication for App {
    fn get_processing_delay_ms(&self) -> u16 {
        self.state.lock().unwrap().processing_delay_ms
    }
    fn write_absolute_time(&mut self, time: Timestamp) -> Result<(), RequestError> {
        self.log.lock().unwrap().push(Cb::WriteAbsTime(time.raw_value()));
        let mut st = self.state.lock().unwrap();
        if st.accept_time {
            if st.clear_need_time_on_write {
                st.iin.need_time = false;
            }
            Ok(())
        } else {
            Err(RequestError::NotSupported)
        }
    }
    fn get_application_iin(&self) -> ApplicationIin {
        self.state.lock().unwrap().iin
    }
    fn cold_restart(&mut self) -> Option<RestartDelay> {
        self.log.lock().unwrap().push(Cb::ColdRestart);
        self.state.lock().unwrap().restart_delay
    }
    fn warm_restart(&mut self) -> Option<RestartDelay> {
        self.log.lock().unwrap().push(Cb::WarmRestart);
        self.state.lock().unwrap().restart_delay
    }
    fn freeze_counter(
        &mut self,
        indices: FreezeIndices,
        freeze_type: FreezeType,
        _database: &mut DatabaseHandle,
    ) -> Result<(), RequestError> {
        self.log
            .lock()
            .unwrap()
            .push(Cb::Freeze(format!("{indices:?}/{freeze_type:?}")));
        if self.state.lock().unwrap().accept_freeze {
            Ok(())
        } else {
            Err(RequestError::NotSupported)
        }
    }
    fn support_write_analog_dead_bands(&mut self) -> bool {
        self.state.lock().unwrap().deadbands
    }
    fn begin_write_analog_dead_bands(&mut self) {
        self.log.lock().unwrap().push(Cb::BeginDeadbands);
    }
    fn write_analog_dead_band(&mut self, index: u16, dead_band: f64) {
        self.log.lock().unwrap().push(Cb::WriteDeadband(index, dead_band));
    }
    fn end_write_analog_dead_bands(&mut self) -> MaybeAsync<()> {
        self.log.lock().unwrap().push(Cb::EndDeadbands);
        MaybeAsync::ready(())
    }
    fn write_device_attr(&mut self, attr: Attribute) -> MaybeAsync<bool> {
        self.log.lock().unwrap().push(Cb::WriteAttr(format!("{attr:?}")));
        MaybeAsync::ready(true)
    }
    fn begin_confirm(&mut self) {
        self.log.lock().unwrap().push(Cb::BeginConfirm);
    }
    fn event_cleared(&mut self, id: u64) {
        self.log.lock().unwrap().push(Cb::EventCleared(id));
    }
    fn end_confirm(&mut self, state: BufferState) -> MaybeAsync<()> {
        self.log.lock().unwrap().push(Cb::EndConfirm {
            classes: [
                state.classes.num_class_1,
                state.classes.num_class_2,
                state.classes.num_class_3,
            ],
            types: [
                state.types.num_binary_input,
                state.types.num_double_bit_binary_input,
                state.types.num_binary_output_status,
                state.types.num_counter,
                state.types.num_frozen_counter,
                state.types.num_analog,
                state.types.num_analog_output_status,
                state.types.num_octet_string,
            ],
        });
        MaybeAsync::ready(())
    }
}

pub struct Info {
    pub log: CbLog,
}

impl OutstationInformation for Info {
    fn process_request_from_idle(&mut self, header: RequestHeader) {
        self.log.lock().unwrap().push(Cb::ReqFromIdle(header.function.as_u8()));
    }
    fn broadcast_received(&mut self, function: FunctionCode, action: BroadcastAction) {
        self.log
            .lock()
            .unwrap()
            .push(Cb::Broadcast(format!("{function:?}/{action:?}")));
    }
    fn enter_solicited_confirm_wait(&mut self, ecsn: Sequence) {
        self.log.lock().unwrap().push(Cb::EnterSolConfirmWait(ecsn.value()));
    }
    fn solicited_confirm_timeout(&mut self, ecsn: Sequence) {
        self.log.lock().unwrap().push(Cb::SolConfirmTimeout(ecsn.value()));
    }
    fn solicited_confirm_received(&mut self, ecsn: Sequence) {
        self.log.lock().unwrap().push(Cb::SolConfirmReceived(ecsn.value()));
    }
    fn solicited_confirm_wait_new_request(&mut self) {
        self.log.lock().unwrap().push(Cb::SolNewRequest);
    }
    fn wrong_solicited_confirm_seq(&mut self, ecsn: Sequence, seq: Sequence) {
        self.log
            .lock()
            .unwrap()
            .push(Cb::WrongSolConfirmSeq(ecsn.value(), seq.value()));
    }
    fn unexpected_confirm(&mut self, unsolicited: bool, seq: Sequence) {
        self.log
            .lock()
            .unwrap()
            .push(Cb::UnexpectedConfirm(unsolicited, seq.value()));
    }
    fn enter_unsolicited_confirm_wait(&mut self, ecsn: Sequence) {
        self.log.lock().unwrap().push(Cb::EnterUnsolConfirmWait(ecsn.value()));
    }
    fn unsolicited_confirm_timeout(&mut self, ecsn: Sequence, retry: bool) {
        self.log
            .lock()
            .unwrap()
            .push(Cb::UnsolConfirmTimeout(ecsn.value(), retry));
    }
    fn unsolicited_confirmed(&mut self, ecsn: Sequence) {
        self.log.lock().unwrap().push(Cb::UnsolConfirmed(ecsn.value()));
    }
    fn clear_restart_iin(&mut self) {
        self.log.lock().unwrap().push(Cb::ClearRestartIin);
    }
}

/// control handler behaviour
#[derive(Copy, Clone, Debug, PartialEq)]
pub enum CtrlMode {
    AllSuccess,
    /// NOT_SUPPORTED for this index, SUCCESS otherwise
    NotSupportedIndex(u16),
    AllNotSupported,
}

pub struct Ctrl {
    pub log: CbLog,
    pub mode: CtrlMode,
}

impl Ctrl {
    fn status(&self, index: u16) -> CommandStatus {
        match self.mode {
            CtrlMode::AllSuccess => CommandStatus::Success,
            CtrlMode::NotSupportedIndex(i) => {
                if i == index {
                    CommandStatus::NotSupported
                } else {
                    CommandStatus::Success
                }
            }
            CtrlMode::AllNotSupported => CommandStatus::NotSupported,
        }
    }
}

fn op_code(t: OperateType) -> u8 {
    match t {
        OperateType::SelectBeforeOperate => 0,
        OperateType::DirectOperate => 1,
        OperateType::DirectOperateNoAck => 2,
    }
}

macro_rules! ctrl_support {
    ($t:ty) => {
        impl ControlSupport<$t> for Ctrl {
            fn select(&mut self, control: $t, index: u16, _db: &mut DatabaseHandle) -> CommandStatus {
                self.log.lock().unwrap().push(Cb::Select(format!("{control:?}"), index));
                self.status(index)
            }
            fn operate(
                &mut self,
                control: $t,
                index: u16,
                op_type: OperateType,
                _db: &mut DatabaseHandle,
            ) -> CommandStatus {
                self.log
                    .lock()
                    .unwrap()
                    .push(Cb::Operate(format!("{control:?}"), index, op_code(op_type)));
                self.status(index)
            }
        }
    };
}

ctrl_support!(Group12Var1);
ctrl_support!(Group41Var1);
ctrl_support!(Group41Var2);
ctrl_support!(Group41Var3);
ctrl_support!(Group41Var4);

impl ControlHandler for Ctrl {
    fn begin_fragment(&mut self) {
        self.log.lock().unwrap().push(Cb::BeginFragment);
    }
    fn end_fragment(&mut self, _database: &mut DatabaseHandle) -> MaybeAsync<()> {
        self.log.lock().unwrap().push(Cb::EndFragment);
        MaybeAsync::ready(())
    }
}

/// plain-data outstation configuration (everything a replay needs)
#[derive(Clone, Debug)]
pub struct OCfg {
    pub unsolicited: bool,
    pub sol_tx: usize,
    pub unsol_tx: usize,
    pub rx: usize,
    pub confirm_timeout_ms: u64,
    pub select_timeout_ms: u64,
    pub max_unsol_retries: Option<usize>,
    pub unsol_retry_delay_ms: u64,
    pub keep_alive_ms: Option<u64>,
    pub broadcast: bool,
    pub self_address: bool,
    pub any_master: bool,
    pub max_controls: Option<u16>,
    /// binary, double, bo-status, counter, frozen counter, analog, ao-status, octet string
    pub event_buf: [u16; 8],
    pub decode_all: bool,
    pub close_on_error: bool,
    pub datagram: bool,
    pub ctrl: CtrlMode,
    pub class_zero_octet_strings: bool,
    /// types left out of class 0 answers (binary, double, bo-status, counter, frozen counter, analog, ao-status, octet string)
    pub class_zero_off: [bool; 8],
    pub max_read_headers: Option<u16>,
}

impl Default for OCfg {
    fn default() -> Self {
        Self {
            unsolicited: false,
            sol_tx: 2048,
            unsol_tx: 2048,
            rx: 2048,
            confirm_timeout_ms: 5000,
            select_timeout_ms: 5000,
            max_unsol_retries: None,
            unsol_retry_delay_ms: 5000,
            keep_alive_ms: None,
            broadcast: true,
            self_address: false,
            any_master: false,
            max_controls: None,
            event_buf: [5; 8],
            decode_all: true,
            close_on_error: true,
            datagram: false,
            ctrl: CtrlMode::AllSuccess,
            class_zero_octet_strings: false,
            class_zero_off: [false; 8],
            max_read_headers: None,
        }
    }
}

pub fn decode_everything() -> DecodeLevel {
    DecodeLevel {
        application: AppDecodeLevel::ObjectValues,
        transport: TransportDecodeLevel::Payload,
        link: LinkDecodeLevel::Payload,
        physical: PhysDecodeLevel::Data,
    }
}

impl OCfg {
    pub fn to_config(&self) -> OutstationConfig {
        let e = self.event_buf;
        let mut c = OutstationConfig::new(
            EndpointAddress::try_new(OUTSTATION_ADDR).unwrap(),
            EndpointAddress::try_new(MASTER_ADDR).unwrap(),
            EventBufferConfig::new(e[0], e[1], e[2], e[3], e[4], e[5], e[6], e[7]),
        );
        c.solicited_buffer_size = BufferSize::new(self.sol_tx).unwrap();
        c.unsolicited_buffer_size = BufferSize::new(self.unsol_tx).unwrap();
        c.rx_buffer_size = BufferSize::new(self.rx).unwrap();
        c.confirm_timeout = Timeout::from_duration(Duration::from_millis(self.confirm_timeout_ms)).unwrap();
        c.select_timeout = Timeout::from_duration(Duration::from_millis(self.select_timeout_ms)).unwrap();
        c.max_unsolicited_retries = self.max_unsol_retries;
        c.unsolicited_retry_delay = Duration::from_millis(self.unsol_retry_delay_ms);
        c.keep_alive_timeout = self.keep_alive_ms.map(Duration::from_millis);
        c.max_controls_per_request = self.max_controls;
        let f = |b: bool| if b { Feature::Enabled } else { Feature::Disabled };
        c.features.unsolicited = f(self.unsolicited);
        c.features.broadcast = f(self.broadcast);
        c.features.self_address = f(self.self_address);
        c.features.respond_to_any_master = f(self.any_master);
        c.decode_level = if self.decode_all { decode_everything() } else { DecodeLevel::nothing() };
        c.class_zero.octet_string = self.class_zero_octet_strings;
        let off = self.class_zero_off;
        c.class_zero.binary &= !off[0];
        c.class_zero.double_bit_binary &= !off[1];
        c.class_zero.binary_output_status &= !off[2];
        c.class_zero.counter &= !off[3];
        c.class_zero.frozen_counter &= !off[4];
        c.class_zero.analog &= !off[5];
        c.class_zero.analog_output_status &= !off[6];
        c.class_zero.octet_string &= !off[7];
        if self.max_read_headers.is_some() {
            c.max_read_request_headers = self.max_read_headers;
        }
        c
    }
    pub fn link(&self) -> LinkSettings {
        LinkSettings {
            error_mode: if self.close_on_error { LinkErrorMode::Close } else { LinkErrorMode::Discard },
            read_mode: if self.datagram { LinkReadMode::Datagram } else { LinkReadMode::Stream },
            parse_zero_length_strings: false,
        }
    }
}

/// something the outstation transmitted
#[derive(Clone, Debug, PartialEq, Eq, Hash)]
pub enum Tx {
    /// a reassembled application fragment
    Frag { t: u64, ord: u64, dst: u16, src: u16, data: Vec<u8> },
    /// a link-only frame (ACK, LINK_STATUS, REQUEST_LINK_STATUS ...)
    Link { t: u64, frame: LinkFrame },
    /// bytes that the reference framer could not decode
    Garbage { t: u64, len: usize },
}

impl Tx {
    pub fn frag(&self) -> Option<&[u8]> {
        match self {
            Tx::Frag { data, .. } => Some(data),
            _ => None,
        }
    }
}

pub struct OSim {
    pub k: Kernel,
    pub handle: OutstationHandle,
    conn: OutstationConnector,
    pub pipe: Option<PipeHandle>,
    pub slog: SessionLog,
    pub cb: CbLog,
    pub app: AppState,
    /// everything transmitted, decoded, in order
    pub out: Vec<Tx>,
    /// raw bytes written (all sessions), for byte-level oracles
    pub raw_out: Vec<u8>,
    stream: Vec<u8>,
    reasm: Reassembler,
    /// transport sequence of the next segment we send
    pub tseq: u8,
    actor: usize,
    pub sessions: usize,
    last_ord: u64,
}

impl OSim {
    pub fn new(cfg: &OCfg, seed: u64) -> Self {
        Self::new_paused_app(cfg, seed, |_| {})
    }

    /// like `new`, with the application's scripted answers set before the first session starts
    pub fn new_paused_app(cfg: &OCfg, seed: u64, init: impl FnOnce(&mut AppBehaviour)) -> Self {
        let mut k = Kernel::new(seed);
        let cb: CbLog = Default::default();
        let slog: SessionLog = Default::default();
        let mut behaviour = AppBehaviour::default();
        init(&mut behaviour);
        let app: AppState = Arc::new(Mutex::new(behaviour));
        let (fut, handle, conn) = k.enter(|| {
            sim::outstation(
                cfg.link(),
                cfg.to_config(),
                Box::new(App { log: cb.clone(), state: app.clone() }),
                Box::new(Info { log: cb.clone() }),
                Box::new(Ctrl { log: cb.clone(), mode: cfg.ctrl }),
                slog.clone(),
            )
        });
        let actor = k.spawn("outstation", fut);
        let mut s = Self {
            k,
            handle,
            conn,
            pipe: None,
            slog,
            cb,
            app,
            out: Vec::new(),
            raw_out: Vec::new(),
            stream: Vec::new(),
            reasm: Reassembler::new(2048),
            tseq: 0,
            actor,
            sessions: 0,
            last_ord: 0,
        };
        s.connect(cfg.datagram);
        s
    }

    /// give the server task a new connection
    pub fn connect(&mut self, datagram: bool) {
        let h = self.conn.connect().expect("server task accepts sessions");
        h.set_datagram(datagram);
        self.pipe = Some(h);
        self.sessions += 1;
        self.stream.clear();
        self.reasm.reset();
        self.pump();
    }

    /// end the current connection (EOF) and settle
    pub fn disconnect(&mut self) {
        if let Some(p) = &self.pipe {
            p.set_eof();
        }
        self.pump();
        self.drain_pipe();
        self.pipe = None;
    }

    pub fn reconnect(&mut self) {
        self.disconnect();
        self.connect(false);
    }

    pub fn task_done(&self) -> bool {
        self.k.is_done(self.actor)
    }

    fn drain_pipe(&mut self) {
        let t = self.k.now_ms();
        let writes = match &self.pipe {
            Some(p) => p.take_tx(),
            None => Vec::new(),
        };
        // one write at a time so that every decoded frame gets the order of the write that
        // completed it
        for (ord, w) in writes {
            self.raw_out.extend_from_slice(&w);
            self.stream.extend_from_slice(&w);
            self.last_ord = ord;
            self.decode_stream(t);
        }
    }

    fn decode_stream(&mut self, t: u64) {
        if self.stream.is_empty() {
            return;
        }
        // decode with the reference framer
        let (frames, rest) = link::parse_stream(&self.stream);
        let consumed = self.stream.len() - rest;
        let framed: usize = frames.iter().map(|f| link::frame_len(f.payload.len())).sum();
        if framed != consumed {
            self.out.push(Tx::Garbage { t, len: consumed - framed });
        }
        self.stream.drain(..consumed);
        for f in frames {
            let is_data = f.is_prm()
                && (f.func() == link::PRI_UNCONFIRMED_USER_DATA
                    || f.func() == link::PRI_CONFIRMED_USER_DATA);
            if is_data {
                let seg = Segment { src: f.src, dst: f.dst, broadcast: false, data: f.payload.clone() };
                if let Some(d) = self.reasm.push(&seg) {
                    self.out.push(Tx::Frag { t, ord: self.last_ord, dst: d.dst, src: d.src, data: d.data });
                }
            } else {
                self.out.push(Tx::Link { t, frame: f });
            }
        }
    }

    /// settle and collect output
    pub fn pump(&mut self) {
        self.k.settle();
        self.drain_pipe();
    }

    /// push raw bytes as one read chunk and settle
    pub fn send_raw(&mut self, bytes: &[u8]) {
        if let Some(p) = &self.pipe {
            p.push(bytes);
        }
        self.pump();
    }

    /// frame an application fragment (transport + link) from `src` to `dst`
    pub fn frame_fragment(&mut self, src: u16, dst: u16, frag: &[u8]) -> Vec<u8> {
        let mut bytes = Vec::new();
        let segs = transport::segment(frag, self.tseq);
        self.tseq = (self.tseq + segs.len() as u8) & 0x3F;
        for s in segs {
            bytes.extend(link::master_data(dst, src, &s));
        }
        bytes
    }

    /// send an application fragment from the configured master, delivered whole
    pub fn send(&mut self, frag: &[u8]) {
        let b = self.frame_fragment(MASTER_ADDR, OUTSTATION_ADDR, frag);
        self.send_raw(&b);
    }

    pub fn send_from(&mut self, src: u16, dst: u16, frag: &[u8]) {
        let b = self.frame_fragment(src, dst, frag);
        self.send_raw(&b);
    }

    /// advance virtual time, collecting output at every timer instant
    pub fn advance(&mut self, ms: u64) {
        let target = self.k.now_ms() + ms;
        // split borrow: collect via a temporary closure over the pipe
        loop {
            let now = self.k.now_ms();
            if now >= target {
                break;
            }
            let woke = self.k.tick(Duration::from_millis(target - now));
            if woke {
                self.pump();
                if self.k.livelock || self.k.panic.is_some() {
                    return;
                }
            } else {
                break;
            }
        }
        self.pump();
    }

    /// run a database transaction (wakes the session through Notify) and settle
    pub fn db<R>(&mut self, f: impl FnMut(&mut Database) -> R) -> R {
        let r = self.handle.transaction(f);
        self.pump();
        r
    }

    /// run a database transaction without settling
    pub fn db_quiet<R>(&mut self, f: impl FnMut(&mut Database) -> R) -> R {
        self.handle.transaction(f)
    }

    pub fn take_out(&mut self) -> Vec<Tx> {
        std::mem::take(&mut self.out)
    }

    pub fn take_cb(&mut self) -> Vec<Cb> {
        let mut g = self.cb.lock().unwrap();
        g.ord.clear();
        std::mem::take(&mut g.v)
    }

    /// callbacks with their observation order
    pub fn take_cb_ordered(&mut self) -> (Vec<Cb>, Vec<u64>) {
        let mut g = self.cb.lock().unwrap();
        (std::mem::take(&mut g.v), std::mem::take(&mut g.ord))
    }

    pub fn session_log(&self) -> Vec<String> {
        self.slog.lock().unwrap().clone()
    }

    /// machinery-visible failure of the run (panic / livelock), if any
    pub fn failure(&self) -> Option<String> {
        if let Some(p) = &self.k.panic {
            return Some(format!("panic: {p}"));
        }
        if self.k.livelock {
            return Some("livelock: poll cap hit".to_string());
        }
        None
    }
}
