//! Paired simulation: the real MasterTask and the real OutstationTask (inside the real
//! ServerTask) on ONE kernel (one virtual clock), each on its own byte pipe. The driver is the
//! network between them: it moves the bytes one side wrote to the other side, whole or
//! re-chunked, immediately or after a scripted delay, and can cut the connection.

use std::collections::VecDeque;
use std::future::Future;
use std::sync::{Arc, Mutex};
use std::time::Duration;

use dnp3::app::BufferSize;
use dnp3::decode::DecodeLevel;
use dnp3::link::{EndpointAddress, LinkErrorMode, LinkReadMode};
use dnp3::master::*;
use dnp3::outstation::OutstationHandle;
use dnp3::verif::pipe::PipeHandle;
use dnp3::verif::sim::{self, LinkSettings, MasterConnector, OutstationConnector, SessionLog};

use crate::kernel::Kernel;
use crate::msim::{AssocHandler, AssocInfo, Clock, Handler, MCb, MCbLog};
use crate::osim::{decode_everything, App, AppBehaviour, AppState, Cb, CbLog, Ctrl, Info, OCfg};

pub const MASTER: u16 = 1;
pub const OUTSTATION: u16 = 10;

/// bytes in flight
#[derive(Clone, Debug)]
pub struct Flight {
    pub deliver_at: u64,
    pub to_master: bool,
    pub bytes: Vec<u8>,
}

pub struct Pair {
    pub k: Kernel,
    // master side
    pub channel: MasterChannel,
    mconn: MasterConnector,
    pub mpipe: Option<PipeHandle>,
    pub mcb: MCbLog,
    pub clock: Clock,
    pub mlog: SessionLog,
    // outstation side
    pub ohandle: OutstationHandle,
    oconn: OutstationConnector,
    pub opipe: Option<PipeHandle>,
    pub ocb: CbLog,
    pub app: AppState,
    pub olog: SessionLog,
    /// scripted one-way delays (ms)
    pub delay_m2o: u64,
    pub delay_o2m: u64,
    pub flights: VecDeque<Flight>,
    /// everything each side wrote, with the virtual time
    pub m_written: Vec<(u64, Vec<u8>)>,
    pub o_written: Vec<(u64, Vec<u8>)>,
    /// hold bytes instead of delivering them (the driver forwards by hand)
    pub manual: bool,
    pub held_m2o: Vec<u8>,
    pub held_o2m: Vec<u8>,
    pub connected: bool,
}

impl Pair {
    pub fn new(ocfg: &OCfg, master_tx: usize, close_on_error: bool, reconnect_delay_ms: u64, seed: u64) -> Self {
        let mut k = Kernel::new(seed);
        let ocb: CbLog = Default::default();
        let olog: SessionLog = Default::default();
        let app: AppState = Arc::new(Mutex::new(AppBehaviour::default()));
        let mut oc = ocfg.to_config();
        oc.outstation_address = EndpointAddress::try_new(OUTSTATION).unwrap();
        oc.master_address = EndpointAddress::try_new(MASTER).unwrap();
        let (ofut, ohandle, oconn) = k.enter(|| {
            sim::outstation(
                ocfg.link(),
                oc,
                Box::new(App { log: ocb.clone(), state: app.clone() }),
                Box::new(Info { log: ocb.clone() }),
                Box::new(Ctrl { log: ocb.clone(), mode: ocfg.ctrl }),
                olog.clone(),
            )
        });
        k.spawn("outstation", ofut);
        let mcb: MCbLog = Default::default();
        let mlog: SessionLog = Default::default();
        let mut mc = MasterChannelConfig::new(EndpointAddress::try_new(MASTER).unwrap());
        mc.tx_buffer_size = BufferSize::new(master_tx).unwrap();
        mc.decode_level = if ocfg.decode_all { decode_everything() } else { DecodeLevel::nothing() };
        let link = LinkSettings {
            error_mode: if close_on_error { LinkErrorMode::Close } else { LinkErrorMode::Discard },
            read_mode: LinkReadMode::Stream,
            parse_zero_length_strings: false,
        };
        let (mfut, channel, mconn, t0) = k.enter(|| {
            let (f, c, n) = sim::master(link, mc, Duration::from_millis(reconnect_delay_ms), mlog.clone());
            (f, c, n, tokio::time::Instant::now())
        });
        k.spawn("master", mfut);
        let clock = Clock { base_ms: Arc::new(Mutex::new(Some(1_000_000))), t0 };
        let mut p = Self {
            k,
            channel,
            mconn,
            mpipe: None,
            mcb,
            clock,
            mlog,
            ohandle,
            oconn,
            opipe: None,
            ocb,
            app,
            olog,
            delay_m2o: 0,
            delay_o2m: 0,
            flights: VecDeque::new(),
            m_written: Vec::new(),
            o_written: Vec::new(),
            manual: false,
            held_m2o: Vec::new(),
            held_o2m: Vec::new(),
            connected: false,
        };
        p.connect();
        p
    }

    /// establish a connection: both sides get a fresh pipe
    pub fn connect(&mut self) {
        self.opipe = self.oconn.connect();
        self.mpipe = self.mconn.connect();
        self.connected = true;
        self.flights.clear();
        self.held_m2o.clear();
        self.held_o2m.clear();
        self.pump();
    }

    /// cut the connection: both sides see EOF; bytes in flight are lost
    pub fn cut(&mut self) {
        if let Some(p) = &self.mpipe {
            p.set_eof();
        }
        if let Some(p) = &self.opipe {
            p.set_eof();
        }
        self.flights.clear();
        self.held_m2o.clear();
        self.held_o2m.clear();
        self.connected = false;
        self.k.settle();
        self.collect();
        self.flights.clear();
        self.held_m2o.clear();
        self.held_o2m.clear();
        self.mpipe = None;
        self.opipe = None;
    }

    /// half-open connection: the master's side is closed (it sees EOF and will reconnect), the
    /// outstation never learns of it and keeps its session until the server task replaces it
    /// with the next connection; bytes in flight are lost
    pub fn half_open(&mut self) {
        if let Some(p) = &self.mpipe {
            p.set_eof();
        }
        self.flights.clear();
        self.held_m2o.clear();
        self.held_o2m.clear();
        self.connected = false;
        self.k.settle();
        self.collect();
        self.flights.clear();
        self.held_m2o.clear();
        self.held_o2m.clear();
        self.mpipe = None;
        // the outstation's end stays open but nobody is listening any more
        self.opipe = None;
    }

    pub fn handlers(&self) -> (Box<dyn ReadHandler>, Box<dyn AssociationHandler>, Box<dyn AssociationInformation>) {
        (
            Box::new(Handler { log: self.mcb.clone(), tag: "" }),
            Box::new(AssocHandler { clock: self.clock.clone() }),
            Box::new(AssocInfo { log: self.mcb.clone() }),
        )
    }

    /// run a user-API future to completion by settling (it must not depend on the peer)
    pub fn call_now<T: 'static>(&mut self, name: &str, fut: impl Future<Output = T> + 'static) -> Option<T> {
        let slot: Arc<Mutex<Option<T>>> = Arc::new(Mutex::new(None));
        let s2 = slot.clone();
        self.k.spawn(
            name,
            Box::pin(async move {
                let r = fut.await;
                *s2.lock().unwrap() = Some(r);
            }),
        );
        self.k.settle();
        let r = slot.lock().unwrap().take();
        r
    }

    /// run a user-API future as an actor; its result is logged as `MCb::Done`
    pub fn call<T: std::fmt::Debug + 'static>(&mut self, name: &str, fut: impl Future<Output = T> + 'static) {
        let log = self.mcb.clone();
        let n = name.to_string();
        self.k.spawn(
            name,
            Box::pin(async move {
                let r = fut.await;
                log.lock().unwrap().push(MCb::Done(n, format!("{r:?}")));
            }),
        );
    }

    pub fn add_association(&mut self, config: AssociationConfig) -> Option<AssociationHandle> {
        let (r, a, i) = self.handlers();
        let mut ch = self.channel.clone();
        let address = EndpointAddress::try_new(OUTSTATION).unwrap();
        self.call_now("add_association", async move { ch.add_association(address, config, r, a, i).await })
            .and_then(|r| r.ok())
    }

    /// move what both sides wrote into the network
    fn collect(&mut self) {
        let now = self.k.now_ms();
        if let Some(p) = &self.mpipe {
            for (_, w) in p.take_tx() {
                self.m_written.push((now, w.clone()));
                if self.manual {
                    self.held_m2o.extend_from_slice(&w);
                } else {
                    self.flights.push_back(Flight { deliver_at: now + self.delay_m2o, to_master: false, bytes: w });
                }
            }
        }
        if let Some(p) = &self.opipe {
            for (_, w) in p.take_tx() {
                self.o_written.push((now, w.clone()));
                if self.manual {
                    self.held_o2m.extend_from_slice(&w);
                } else {
                    self.flights.push_back(Flight { deliver_at: now + self.delay_o2m, to_master: true, bytes: w });
                }
            }
        }
    }

    fn deliver_due(&mut self) -> bool {
        let now = self.k.now_ms();
        let mut any = false;
        let mut rest = VecDeque::new();
        while let Some(f) = self.flights.pop_front() {
            if f.deliver_at <= now {
                any = true;
                let target = if f.to_master { &self.mpipe } else { &self.opipe };
                if let Some(p) = target {
                    p.push(&f.bytes);
                }
            } else {
                rest.push_back(f);
            }
        }
        self.flights = rest;
        any
    }

    /// settle, forwarding everything that is due, until nothing more happens at this instant
    pub fn pump(&mut self) {
        for _ in 0..10_000 {
            self.k.settle();
            self.collect();
            if !self.deliver_due() {
                break;
            }
        }
        // an endpoint that ended its session has closed its socket: the peer sees the end of
        // the connection as well (as with TCP)
        if self.connected {
            let o_closed = self.opipe.as_ref().map(|p| p.is_closed()).unwrap_or(false);
            let m_closed = self.mpipe.as_ref().map(|p| p.is_closed()).unwrap_or(false);
            if o_closed || m_closed {
                self.cut();
            }
        }
    }

    /// push raw bytes (forged by the driver) towards one side
    pub fn inject(&mut self, to_master: bool, bytes: &[u8]) {
        let target = if to_master { &self.mpipe } else { &self.opipe };
        if let Some(p) = target {
            p.push(bytes);
        }
        self.pump();
    }

    /// forward held bytes (manual mode): `n` = number of bytes, None = all
    pub fn forward(&mut self, to_master: bool, n: Option<usize>) {
        let (buf, target) = if to_master { (&mut self.held_o2m, &self.mpipe) } else { (&mut self.held_m2o, &self.opipe) };
        let k = n.unwrap_or(buf.len()).min(buf.len());
        if k > 0 {
            let part: Vec<u8> = buf.drain(..k).collect();
            if let Some(p) = target {
                p.push(&part);
            }
        }
        self.pump();
    }

    /// advance the virtual clock to t0 + target, stopping at every timer and every delivery
    pub fn advance_to(&mut self, target_ms: u64) {
        loop {
            let now = self.k.now_ms();
            if now >= target_ms || self.k.livelock || self.k.panic.is_some() {
                break;
            }
            let next_delivery = self.flights.iter().map(|f| f.deliver_at).min();
            let stop = match next_delivery {
                Some(d) if d < target_ms => d.max(now),
                _ => target_ms,
            };
            if stop > now {
                let woke = self.k.tick(Duration::from_millis(stop - now));
                let _ = woke;
            }
            self.pump();
        }
        self.pump();
    }

    pub fn advance(&mut self, ms: u64) {
        let t = self.k.now_ms() + ms;
        self.advance_to(t);
    }

    /// run until nothing is in flight and no timer fires before `horizon_ms` from now
    pub fn run_quiet(&mut self, horizon_ms: u64) {
        let end = self.k.now_ms() + horizon_ms;
        self.advance_to(end);
    }

    pub fn take_mcb(&mut self) -> Vec<MCb> {
        let mut g = self.mcb.lock().unwrap();
        g.ord.clear();
        std::mem::take(&mut g.v)
    }

    pub fn take_mcb_ordered(&mut self) -> (Vec<MCb>, Vec<u64>) {
        let mut g = self.mcb.lock().unwrap();
        (std::mem::take(&mut g.v), std::mem::take(&mut g.ord))
    }

    pub fn take_ocb_ordered(&mut self) -> (Vec<Cb>, Vec<u64>) {
        let mut g = self.ocb.lock().unwrap();
        (std::mem::take(&mut g.v), std::mem::take(&mut g.ord))
    }

    pub fn take_ocb(&mut self) -> Vec<Cb> {
        let mut g = self.ocb.lock().unwrap();
        g.ord.clear();
        std::mem::take(&mut g.v)
    }

    pub fn failure(&self) -> Option<String> {
        if let Some(p) = &self.k.panic {
            return Some(format!("panic: {p}"));
        }
        if self.k.livelock {
            return Some("livelock: poll cap hit".to_string());
        }
        None
    }
}
