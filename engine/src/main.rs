//! verif-engine: bounded-exhaustive model checking of stepfunc/dnp3 (see /verif/DESIGN.md)
#![allow(dead_code)]

mod explore;
mod kernel;
mod msim;
mod osim;
mod psim;
mod props;
mod trace;
mod wire;

use explore::RunResult;

fn usage() -> ! {
    eprintln!("usage: verif-engine <property-id> --tier quick|thorough | --replay <file>");
    std::process::exit(2);
}

fn print_replay(id: &str, r: Option<RunResult>) -> i32 {
    match r {
        None => {
            eprintln!("replay: unknown scenario for {id}");
            2
        }
        Some(r) => {
            for l in &r.transcript {
                println!("{l}");
            }
            match r.violation {
                Some(v) => {
                    println!("REPLAY: violation reproduces: clause={} key={} detail={}", v.clause, v.key, v.detail);
                    1
                }
                None => {
                    println!("REPLAY: no violation");
                    0
                }
            }
        }
    }
}

fn main() {
    let args: Vec<String> = std::env::args().collect();
    if args.len() < 2 {
        usage();
    }
    let id = args[1].to_uppercase();
    let mut tier = std::env::var("VERIF_TIER").unwrap_or_else(|_| "quick".to_string());
    let mut replay: Option<String> = None;
    let mut i = 2;
    while i < args.len() {
        match args[i].as_str() {
            "--tier" => {
                tier = args.get(i + 1).cloned().unwrap_or_else(|| usage());
                i += 2;
            }
            "--replay" => {
                replay = Some(args.get(i + 1).cloned().unwrap_or_else(|| usage()));
                i += 2;
            }
            _ => usage(),
        }
    }
    if tier != "quick" && tier != "thorough" {
        usage();
    }
    kernel::install_panic_hook();

    if std::env::var("VERIF_NO_TRACE").is_err() {
        trace::install();
    }

    let code = if let Some(file) = replay {
        let (_kind, name, path) = explore::read_replay(&file);
        match id.as_str() {
            "C01" => print_replay(&id, props::c01::replay(&name, &path)),
            "C02" => print_replay(&id, props::c02::replay(&name, &path)),
            "C03" => print_replay(&id, props::c03::replay(&name, &path)),
            "C04" => print_replay(&id, props::c04::replay(&name, &path)),
            "C05" => print_replay(&id, props::c05::replay(&name, &path)),
            "C06" => print_replay(&id, props::c06::replay(&name, &path)),
            "C07" => print_replay(&id, props::c07::replay(&name, &path)),
            "C08" => print_replay(&id, props::c08::replay(&name, &path)),
            "C09" => print_replay(&id, props::c09::replay(&name, &path)),
            "C10" => print_replay(&id, props::c10::replay(&name, &path)),
            "C11" => print_replay(&id, props::c11::replay(&name, &path)),
            "C12" => print_replay(&id, props::c12::replay(&name, &path)),
            "C13" => print_replay(&id, props::c13::replay(&name, &path)),
            "C14" => print_replay(&id, props::c14::replay(&name, &path)),
            "C15" => print_replay(&id, props::c15::replay(&name, &path)),
            "C16" => print_replay(&id, props::c16::replay(&name, &path)),
            "C17" => print_replay(&id, props::c17::replay(&name, &path)),
            "C18" => print_replay(&id, props::c18::replay(&name, &path)),
            "C19" => print_replay(&id, props::c19::replay(&name, &path)),
            _ => {
                eprintln!("unknown property {id}");
                2
            }
        }
    } else {
        match id.as_str() {
            "C01" => props::c01::check(&tier),
            "C02" => props::c02::check(&tier),
            "C03" => props::c03::check(&tier),
            "C04" => props::c04::check(&tier),
            "C05" => props::c05::check(&tier),
            "C06" => props::c06::check(&tier),
            "C07" => props::c07::check(&tier),
            "C08" => props::c08::check(&tier),
            "C09" => props::c09::check(&tier),
            "C10" => props::c10::check(&tier),
            "C11" => props::c11::check(&tier),
            "C12" => props::c12::check(&tier),
            "C13" => props::c13::check(&tier),
            "C14" => props::c14::check(&tier),
            "C15" => props::c15::check(&tier),
            "C16" => props::c16::check(&tier),
            "C17" => props::c17::check(&tier),
            "C18" => props::c18::check(&tier),
            "C19" => props::c19::check(&tier),
            _ => {
                eprintln!("unknown property {id}");
                2
            }
        }
    };
    std::process::exit(code);
}
